import Vanguard.Model.Validate
/-!
  Model of one transcoded request end to end (`transcoder.go`): `operation.handle`, the request
  readers (`envelopingReader`, `transformingReader`, `readRequestMessage`, `hardLimitReader`), the
  `responseWriter` state machine with its writers (`envelopingWriter`, `transformingWriter`,
  `errorWriter`, `limitWriter`, `noResponseBodyWriter`), `message.advanceToStage`, and the
  interpretation of a scripted backend handler.

  The chunk-level control flow of the Go code is mirrored: `Read(n)` / `Write(chunk)` are the
  units, so segmentation-dependence would be visible in the model.
-/
namespace Vanguard

/-! ### The client connection: request body source and response sink -/

inductive SrcEnd where
  | eof | unexpected
  | eofWithData        -- the last bytes are returned together with io.EOF (allowed by io.Reader)
  deriving Repr, DecidableEq

/-- The client's request body: remaining chunks (each `Read` returns bytes of one chunk only). -/
structure Source where
  chunks : List Bytes
  ending : SrcEnd
  deriving Repr

/-- Error classes of reads and writes. -/
inductive Err where
  | eof
  | unexpectedEOF
  | rpc (code : Nat)      -- a connect.Error with this code (message generated)
  | other                 -- any other Go error (becomes `unknown` / 502 when reported)
  | closed                -- "RPC already ended" (errFinalDataAlreadyWritten / context.Canceled)
  deriving Repr, DecidableEq

def SrcEnd.err (e : SrcEnd) : Err := if e == .unexpected then .unexpectedEOF else .eof

def Source.read (src : Source) (n : Nat) : Bytes × Option Err × Source :=
  match src.chunks.filter (fun c => !c.isEmpty) with
  | [] => ([], some src.ending.err, { src with chunks := [] })
  | c :: rest =>
    if n == 0 then ([], none, { src with chunks := c :: rest })
    else
      let rest' := if (c.drop n).isEmpty then rest else c.drop n :: rest
      let e := if rest'.isEmpty && src.ending == .eofWithData then some Err.eof else none
      (c.take n, e, { src with chunks := rest' })

/-- What the client receives. End frames / error bodies whose encoding vanguard does not own
    (JSON, trailer blocks) are kept as abstract items. -/
inductive Item where
  | raw (b : Bytes)
  | endFrame (flags : UInt8) (e : RespEnd)     -- Connect end-of-stream / gRPC-Web trailer frame
  | errBody (e : RpcErr)                       -- Connect unary error body (JSON)
  deriving Repr

structure Sink where
  hdr : Hdr := []                 -- live header map of the underlying ResponseWriter
  status : Option Nat := none     -- status of the first WriteHeader
  snap : Hdr := []                -- headers as of the first WriteHeader
  items : List Item := []
  heads : Nat := 0                -- number of WriteHeader calls made on the underlying writer
  flushes : Nat := 0
  flushedN : Option Nat := none   -- number of items written when `Flush` was last called
  /-- gRPC status written into a header map is kept abstract, next to the map -/
  hdrEnd : Option RpcErr := none  -- Some = `Grpc-Status` etc. present in `hdr` with this value
  hdrEndSet : Bool := false
  trailerEnd : Option RpcErr := none
  trailerEndSet : Bool := false
  deriving Repr

/-- `http.Flusher.Flush` on the client's writer: everything written so far is on the wire. -/
def Sink.flush (k : Sink) : Sink := { k with flushes := k.flushes + 1, flushedN := some k.items.length }

def Sink.writeHeader (k : Sink) (code : Nat) : Sink :=
  if k.status.isSome then { k with heads := k.heads + 1 }
  else { k with status := some code, snap := k.hdr, heads := k.heads + 1 }

def Sink.write (k : Sink) (b : Bytes) : Sink :=
  let k := if k.status.isNone then { k with status := some 200, snap := k.hdr } else k
  if b.isEmpty then k else { k with items := k.items ++ [.raw b] }

def Sink.writeItem (k : Sink) (i : Item) : Sink :=
  let k := if k.status.isNone then { k with status := some 200, snap := k.hdr } else k
  { k with items := k.items ++ [i] }

/-- `compressionPool.decompressLimited`: inflating to more than `limit` bytes is a size error. -/
def decompressLimited (w : World) (z : Bytes) (d : Bytes) (limit : Nat) : Except Err Bytes :=
  match w.decompress z d with
  | none => .error .other
  | some r => if r.length > limit then .error (.rpc 8) else .ok r

/-! ### message.advanceToStage -/

structure Codecs where
  ccodec : Bytes
  scodec : Bytes
  deriving Repr

/-- `message.advanceToStage(op, stageSend)` from `stageRead`, for one message.
    `decompWith` / `compWith` are the pools `decompress` / `compress` would use (`none` = nil). -/
def transformMsg (w : World) (limit : Nat) (sameCodec sameCompression wasCompressed : Bool)
    (decompWith compWith : Option Bytes) (decCodec encCodec : Bytes) (data : Bytes) : Except Err Bytes :=
  if sameCodec && (!wasCompressed || sameCompression) then .ok data
  else
    let decompress (d : Bytes) : Except Err Bytes :=
      match decompWith with
      | none => .ok d
      | some z => if d.isEmpty then .ok d else decompressLimited w z d limit
    let compress (d : Bytes) : Bytes :=
      match compWith with
      | none => d
      | some z => w.compress z d
    if sameCodec then
      match decompress data with
      | .error e => .error e
      | .ok d => .ok (compress d)
    else
      let dec := if wasCompressed then decompress data else .ok data
      match dec with
      | .error e => .error e
      | .ok d =>
        match w.decode decCodec d with
        | none => .error .other
        | some v =>
          let enc := w.encode encCodec v
          .ok (if wasCompressed then compress enc else enc)

/-! ### responseWriter and its writers -/

inductive Cur where                -- envelopingWriter.current
  | none
  | down                           -- w.w (the downstream writer)
  | trailerBuf (b : Bytes)         -- buffered end-of-stream message
  | limitBuf (b : Bytes)           -- buffer-to-measure (limitWriter over a fresh buffer)
  deriving Repr

structure EW where                 -- envelopingWriter
  initialized : Bool := false
  err : Bool := false
  writingEnvelope : Bool := false
  env : Bytes := []                -- envelope bytes collected so far
  remaining : Int := 0             -- remainingBytes (-1 = pass everything to current)
  current : Cur := .none
  mustRelease : Bool := false
  currentIsTrailer : Bool := false
  trailerIsCompressed : Bool := false
  deriving Repr

structure TW where                 -- transformingWriter
  err : Bool := false
  buffer : Option Bytes := none    -- w.buffer (nil before the first Write)
  expecting : Int := 0             -- expectingBytes
  writingEnvelope : Bool := false
  latest : Envelope := {}
  msgCompressed : Bool := false    -- msg.wasCompressed of the message being collected
  deriving Repr

inductive WK where                 -- responseWriter.w
  | unset
  | enveloping (w : EW)
  | transforming (w : TW)
  | errorWriter (body : Option Bytes) (kind : EndBody)
  | noBody
  deriving Repr

structure RW where
  headersWritten : Bool := false
  contentLen : Int := -1
  headersFlushed : Bool := false
  endWritten : Bool := false
  respMeta : Option RespMeta := none
  err : Bool := false
  w : WK := .unset
  buf : Option Bytes := none       -- whole-response buffer (end must be in headers)
  cRespComp : Option Bytes := none -- op.client.respCompression = op.server.respCompression
  sameRespCodec : Bool := false
  active : Bool := false           -- a responseWriter exists (handle() got that far)
  statusCode : Nat := 0            -- w.code
  deriving Repr

/-- Combined state of one request in flight. -/
structure St where
  op : Op
  src : Source
  sink : Sink
  rw : RW := {}
  scratch : Hdr := []              -- header map handed to the handler after the end was written
  deriving Repr

/-- `responseWriter.Header()` as the handler / the writers see it. -/
def St.hdr (st : St) : Hdr := if st.rw.endWritten then st.scratch else st.sink.hdr
def St.setHdr (st : St) (h : Hdr) : St :=
  if st.rw.endWritten then { st with scratch := h } else { st with sink := { st.sink with hdr := h } }

def Op.clientEnveloper (o : Op) : Option Enveloper := o.cform.enveloper
def Op.serverEnveloper (o : Op) : Option Enveloper := o.sform.enveloper

/-- `grpcWriteEndToTrailers` into the live header map: application trailers are copied, the status
    is recorded abstractly. -/
def writeEndToHeaders (k : Sink) (e : RespEnd) : Sink :=
  let h := e.trailers.foldl (fun acc t => Hdr.setRaw acc t.1 t.2) k.hdr
  { k with hdr := h, hdrEnd := e.err, hdrEndSet := true }

/-- `addProtocolResponseHeaders` of the client form, applied to the live header map.
    Returns the status code (`none` = `httpStatusCodeFromRPC` would panic). -/
def addResponseHeaders (c : ClientForm) (rm : RespMeta) (k : Sink) : Option Nat × Sink :=
  let acc := joinBytes commaSpace rm.acceptCompression
  match c with
  | .grpc | .grpcWeb =>
    let pre := if c == .grpc then s "application/grpc+" else s "application/grpc-web+"
    let h := k.hdr.set (s "Content-Type") (pre ++ rm.codec)
    let k := { k with hdr := h }
    let k := match rm.end with
      | some e => writeEndToHeaders k e
      | none =>
        let h := setIf k.hdr (!rm.compression.isEmpty) (s "Grpc-Encoding") rm.compression
        let h := setIf h (!rm.acceptCompression.isEmpty) (s "Grpc-Accept-Encoding") acc
        { k with hdr := h }
    -- a trailers-only response (the end is in the headers) declares no trailers
    if c == .grpc && rm.end.isNone then
      let keys := (rm.pendingTrailerKeys ++ rm.pendingTrailers.map (fun e => canonKey e.1)).eraseDups
      let h := keys.foldl (fun acc k => Hdr.add acc (s "Trailer") k) k.hdr
      let h := if keys.contains (s "Grpc-Status") then h else Hdr.add h (s "Trailer") (s "Grpc-Status")
      let h := if keys.contains (s "Grpc-Message") then h else Hdr.add h (s "Trailer") (s "Grpc-Message")
      (some 200, { k with hdr := h })
    else (some 200, k)
  | .connectStream =>
    let h := k.hdr.set (s "Content-Type") (s "application/connect+" ++ rm.codec)
    let h := setIf h (!rm.compression.isEmpty) (s "Connect-Content-Encoding") rm.compression
    let h := setIf h (!rm.acceptCompression.isEmpty) (s "Connect-Accept-Encoding") acc
    (some 200, { k with hdr := h })
  | .connectPost | .connectGet =>
    let errOf := rm.end.bind (·.err)
    let (status, h) := match errOf with
      | some e => (httpStatusFromRPC e.code, k.hdr.set (s "Content-Type") (s "application/json"))
      | none =>
        let h := k.hdr.set (s "Content-Type") (s "application/" ++ rm.codec)
        (some 200, setIf h (!rm.compression.isEmpty) (s "Content-Encoding") rm.compression)
    let h := match rm.end with
      | some e => e.trailers.foldl (fun acc t => Hdr.setRaw acc (s "Trailer-" ++ t.1) t.2) h
      | none => h
    let h := setIf h (!rm.acceptCompression.isEmpty) (s "Accept-Encoding") acc
    (status, { k with hdr := h })
  | .rest => (some 200, k)

/-- `clientProtocolHandler.encodeEnd` followed by `httpMergeTrailers`. -/
def encodeEnd (c : ClientForm) (e : RespEnd) (wasInHeaders : Bool) (k : Sink) : Sink :=
  match c with
  | .grpc =>
    if wasInHeaders then k
    else
      let h := httpMergeTrailers k.hdr e.trailers
      { k with hdr := h, trailerEnd := e.err, trailerEndSet := true }
  | .grpcWeb => if wasInHeaders then k else k.writeItem (.endFrame 0x80 e)
  | .connectStream => k.writeItem (.endFrame 2 e)
  | .connectPost | .connectGet =>
    match e.err with
    | some err => if wasInHeaders then k.writeItem (.errBody err) else k
    | none => k
  | .rest => k

def intersection (known : Bytes → Bool) (names : List Bytes) : List Bytes := names.filter known

/-- `responseWriter.writeEnd`. -/
def writeEnd (st : St) (e : RespEnd) (wasInHeaders : Bool) : St :=
  let st := { st with sink := encodeEnd st.op.cform e wasInHeaders st.sink }
  { st with rw := { st.rw with endWritten := true } }

/-- `responseWriter.flushHeaders`. The `panic` flag models `httpStatusCodeFromRPC` indexing out of range. -/
def flushHeaders (w : World) (st : St) : St × Bool :=
  if st.rw.headersFlushed then (st, false) else
  let rm := st.rw.respMeta.getD {}
  let cli : RespMeta := { rm with codec := st.op.ccodec,
                                  compression := (st.rw.cRespComp.getD []),
                                  acceptCompression := intersection w.knownCompression rm.acceptCompression }
  let (status, sink) := addResponseHeaders st.op.cform cli st.sink
  match status with
  | none => (st, true)
  | some code =>
    let hasErr := (rm.end.bind (·.err)).isSome
    -- Content-Length of a buffered success body is set here; the observation checks it against the body
    let sink := sink.writeHeader code
    let sink := match st.rw.buf with
      | some b => if hasErr then sink else sink.write b
      | none => sink
    let st := { st with sink := sink, rw := { st.rw with buf := none } }
    let st := match rm.end with
      | some e => let st := writeEnd st e true; { st with rw := { st.rw with err := true } }
      | none => st
    ({ st with rw := { st.rw with headersFlushed := true } }, false)

/-- `responseWriter.reportEnd`. -/
def reportEnd (w : World) (st : St) (e : RespEnd) : St × Bool :=
  if st.rw.endWritten then (st, false) else
  -- trailers the handler stored so far are part of `e` already, or superseded by it
  let st := match st.rw.respMeta with
    | some rm => { st with sink := { st.sink with hdr := (httpExtractTrailers st.sink.hdr rm.pendingTrailerKeys).2 } }
    | none => st
  let e := match st.rw.respMeta with
    | some rm => if !rm.pendingTrailers.isEmpty && e.trailers.isEmpty then { e with trailers := rm.pendingTrailers } else e
    | none => e
  let (st, p) :=
    if st.rw.headersFlushed then (writeEnd st e false, false)
    else
      let rm := (st.rw.respMeta.getD {})
      flushHeaders w { st with rw := { st.rw with respMeta := some { rm with «end» := some e } } }
  ({ st with sink := st.sink.flush, rw := { st.rw with err := true } }, p)

/-- `responseWriter.reportError`. -/
def reportError (w : World) (st : St) (err : Err) : St × Bool :=
  match err with
  | .rpc code =>
    match httpStatusFromRPC code with
    | none => (st, true)
    | some http => reportEnd w st { err := some (genErr code), httpCode := http }
  | _ => reportEnd w st { err := some (genErr 2), httpCode := 502 }

/-- Result of writing to the downstream writer `w.w` (the client, or the whole-response buffer
    behind a `limitWriter`). -/
def writeDown (w : World) (st : St) (b : Bytes) : St × Bool × Bool :=   -- (state, error?, panic?)
  match st.rw.buf with
  | some buf =>
    if buf.length + b.length > st.op.conf.maxMsg then
      let (st, p) := reportError w st (.rpc 8)
      (st, true, p)
    else ({ st with rw := { st.rw with buf := some (buf ++ b) } }, false, false)
  | none => ({ st with sink := st.sink.write b }, false, false)

/-- `responseWriter.flushMessage`. -/
def flushMessage (st : St) : St :=
  if st.rw.buf.isSome then st else { st with sink := st.sink.flush }

/-- `bytes.Split(b, "\r\n")`. -/
def splitCRLF : Bytes → List Bytes
  | [] => [[]]
  | [c] => [[c]]
  | a :: b :: rest =>
    if a == 0x0D && b == 0x0A then [] :: splitCRLF rest
    else match splitCRLF (b :: rest) with
      | h :: t => (a :: h) :: t
      | [] => [[a]]

/-- `decodeEndFromMessage` of the server form on the (decompressed) end message. -/
def decodeEndFromMessage (tb : Tables) (p : ServerForm) (data : Bytes) : Option RespEnd :=
  match p with
  | .connectStream => (tb.jsonEnd data).map fun (err, md) => { err := err, trailers := md }
  | .grpcWeb =>
    -- "k: v\r\n" lines
    let lines := splitCRLF data
    let go := lines.foldl (fun (acc : Option Hdr) l =>
      match acc with
      | none => none
      | some h =>
        if l.isEmpty then some h
        else if !l.contains 0x3A then none
        else some (Hdr.add h (l.takeWhile (· != 0x3A)) (trimSpace ((l.dropWhile (· != 0x3A)).drop 1)))) (some [])
    go.map fun h => let (err, ts) := grpcExtractErrorFromTrailer tb h; { err := err, trailers := ts }
  | _ => none

/-- Handling of a completely buffered end-of-stream message (shared by both writers). -/
def handleEndMessage (w : World) (tb : Tables) (st : St) (compressed : Bool) (data : Bytes) (reportInflate : Bool) :
    St × Option Err × Bool :=
  let data? : Except Err Bytes :=
    if compressed && !data.isEmpty then
      match st.rw.cRespComp with
      | some z => decompressLimited w z data st.op.conf.maxMsg
      | none => .ok data
    else .ok data
  match data? with
  | .error err =>
    -- `envelopingWriter.handleTrailer` reports a decompression failure itself; `transformingWriter`
    -- returns it to `Write`, which reports it
    if reportInflate then ((reportError w st err).1, some err, (reportError w st err).2) else (st, some err, false)
  | .ok d =>
    match decodeEndFromMessage tb st.op.sform d with
    | none => ((reportError w st .other).1, some .other, (reportError w st .other).2)
    | some e =>
      ((reportEnd w st { e with wasCompressed := compressed }).1, none, (reportEnd w st { e with wasCompressed := compressed }).2)

/-- `envelopingWriter.maybeInit`. -/
def ewInit (w : World) (st : St) (e : EW) : St × EW × Bool :=
  if e.initialized then (st, e, false) else
  let e := { e with initialized := true }
  if st.op.serverEnveloper.isSome then (st, { e with writingEnvelope := true, remaining := 5 }, false)
  else match st.op.clientEnveloper with
    | none => (st, { e with remaining := -1, current := .down }, false)
    | some ce =>
      if st.rw.contentLen == -1 then (st, { e with remaining := -1, current := .limitBuf [], mustRelease := true }, false)
      else if st.rw.contentLen > st.op.conf.maxMsg then
        let (st, p) := reportError w st (.rpc 8); (st, { e with err := true }, p)
      else
        let env : Envelope := { compressed := st.rw.cRespComp.isSome, length := st.rw.contentLen.toNat }
        let (st, failed, p) := writeDown w st (ce.encode env)
        if failed then (st, { e with err := true }, p)
        else (st, { e with current := .down, remaining := st.rw.contentLen }, p)

/-- `envelopingWriter.writeBytes` + bookkeeping of one piece that stays within `remaining`. -/
def ewWritePiece (w : World) (st : St) (e : EW) (piece : Bytes) : St × EW × Bool × Bool :=
  if e.writingEnvelope then (st, { e with env := e.env ++ piece }, false, false)
  else match e.current with
    | .down => let (st, failed, p) := writeDown w st piece; (st, e, failed, p)
    | .trailerBuf b => (st, { e with current := .trailerBuf (b ++ piece) }, false, false)
    | .limitBuf b =>
      if b.length + piece.length > st.op.conf.maxMsg then
        let (st, p) := reportError w st (.rpc 8); (st, e, true, p)
      else (st, { e with current := .limitBuf (b ++ piece) }, false, false)
    | .none => (st, e, false, true)          -- nil sink: Go would panic

/-- `envelopingWriter.handleEnvelopeWritten`. Returns (state, writer, error?, panic?). -/
def ewEnvelopeWritten (w : World) (st : St) (e : EW) : St × EW × Bool × Bool :=
  let e := { e with writingEnvelope := false }
  match st.op.serverEnveloper with
  | none => let (st, p) := reportError w st .other; (st, { e with err := true, env := [] }, true, p)
  | some se =>
    match e.env with
    | [f, a, b, c, d] =>
      let e := { e with env := [] }
      match se.decode f a b c d with
      | none => let (st, p) := reportError w st (.rpc 3); (st, e, true, p)
      | some env =>
        if env.trailer then
          if env.length > st.op.conf.maxMsg then let (st, p) := reportError w st (.rpc 8); (st, e, true, p)
          else (st, { e with current := .trailerBuf [], mustRelease := true, currentIsTrailer := true,
                             trailerIsCompressed := env.compressed, remaining := env.length }, false, false)
        else
          let (st, failed, p) := match st.op.clientEnveloper with
            | some ce => writeDown w st (ce.encode env)
            | none => (st, false, false)
          if failed then (st, { e with err := true }, true, p)
          else (st, { e with current := .down, remaining := env.length }, false, p)
    | _ => (st, e, true, true)               -- cannot happen: exactly 5 bytes were collected

/-- `envelopingWriter.Write` after `maybeInit`, for the enveloped case; fuel bounds the loop. -/
def ewLoop (w : World) (tb : Tables) : Nat → St → EW → Bytes → St × EW × Bool × Bool
  | 0, st, e, _ => (st, e, true, true)
  | fuel + 1, st, e, data =>
    if e.err then (st, e, true, false) else
    if (data.length : Int) < e.remaining then
      let (st, e, failed, p) := ewWritePiece w st e data
      let e := { e with remaining := e.remaining - data.length, err := e.err || failed }
      (st, e, failed, p)
    else
      let k := e.remaining.toNat
      let (st, e, failed, p) := ewWritePiece w st e (data.take k)
      let rest := data.drop k
      let e := { e with remaining := e.remaining - k }
      if failed || p then (st, { e with err := true }, true, p) else
      if e.writingEnvelope then
        let (st, e, failed, p) := ewEnvelopeWritten w st e
        if failed || p then (st, e, true, p) else ewLoop w tb fuel st e rest
      else if e.currentIsTrailer then
        match e.current with
        | .trailerBuf b =>
          let e := { e with mustRelease := false }
          let (st, err, p) := handleEndMessage w tb st e.trailerIsCompressed b true
          if err.isSome || p then (st, e, true, p)
          else
            let e := { e with err := true }
            if rest.isEmpty then (st, e, false, false) else ewLoop w tb fuel st e rest
        | _ => (st, e, true, false)
      else
        let st := flushMessage st
        ewLoop w tb fuel st { e with writingEnvelope := true, remaining := 5 } rest

/-- `envelopingWriter.Write`. -/
def ewWrite (w : World) (tb : Tables) (st : St) (e : EW) (data : Bytes) : St × EW × Bool × Bool :=
  let (st, e, p) := ewInit w st e
  if p then (st, e, true, true) else
  if e.err then (st, e, true, false) else
  if e.remaining == -1 then
    let (st, e, failed, p) := ewWritePiece w st e data
    (st, { e with err := e.err || failed }, failed, p)
  else ewLoop w tb (2 * data.length + 4) st e data

/-- `envelopingWriter.Close`, first half: a body of unknown length that was buffered for a client
    with envelopes is written out now. -/
def ewCloseFlush (w : World) (st : St) (e : EW) : St × EW × Bool :=
  match e.current with
  | .limitBuf b =>
    if e.remaining == -1 && e.mustRelease && !e.err && !st.rw.endWritten then
      if b.length > st.op.conf.maxMsg then (st, { e with err := true }, false)
      else match st.op.clientEnveloper with
        | some ce =>
          let env : Envelope := { compressed := st.rw.cRespComp.isSome, length := b.length }
          let (st, failed, p) := writeDown w st (ce.encode env)
          if failed || p then (st, { e with err := true }, p)
          else let (st, failed, p) := writeDown w st b; (st, { e with err := failed }, p)
        | none => (st, e, true)
    else (st, e, false)
  | _ => (st, e, false)

/-- `envelopingWriter.Close`. -/
def ewClose (w : World) (st : St) (e : EW) : St × Bool :=
  let (st, e, p) := ewCloseFlush w st e
  if p then (st, true) else
  -- an early return above (size limit) skips the "unfinished body" report, as in Go
  if e.err && e.remaining == -1 then (st, false) else
  let normalEOF := e.writingEnvelope && e.remaining == 5
  if e.remaining > 0 && !normalEOF then reportError w st .other else (st, false)

/-- `transformingWriter.reset`. -/
def twReset (st : St) (t : TW) : TW :=
  if st.op.serverEnveloper.isSome then { t with buffer := some [], expecting := 5, writingEnvelope := true, msgCompressed := false }
  else
    let isCompressed := !((st.rw.respMeta.getD {}).compression.isEmpty)
    { t with buffer := some [], expecting := -1, msgCompressed := isCompressed }

/-- `transformingWriter.flushMessage`. Returns (state, writer, error, panic?). -/
def twFlushMessage (w : World) (tb : Tables) (st : St) (t : TW) : St × TW × Option Err × Bool :=
  let data := t.buffer.getD []
  if t.latest.trailer then
    let (st, err, p) := handleEndMessage w tb st t.latest.compressed data false
    if err.isSome || p then (st, t, err, p) else (st, { t with err := true }, none, false)
  else
    match transformMsg w st.op.conf.maxMsg st.rw.sameRespCodec true t.msgCompressed st.rw.cRespComp st.rw.cRespComp
            st.op.scodec st.op.ccodec data with
    | .error e => (st, t, some e, false)
    | .ok out =>
      let envRes : St × Option Err × Bool × Bool :=        -- (state, error, panic, latched)
        match st.op.clientEnveloper with
        | some ce =>
          if out.length > st.op.conf.maxMsg then (st, some (.rpc 8), false, false)
          else
            let env : Envelope := { compressed := t.msgCompressed && st.rw.cRespComp.isSome, length := out.length }
            let (st, failed, p) := writeDown w st (ce.encode env)
            (st, if failed then some .closed else none, p, failed)
        | none => (st, none, false, false)
      let (st, err, p, latched) := envRes
      if err.isSome || p then (st, { t with err := t.err || latched }, err, p) else
      let (st, failed, p) := writeDown w st out
      if failed || p then (st, { t with err := true }, some .closed, p) else
      let st := flushMessage st
      (st, twReset st t, none, false)

/-- The enveloped `transformingWriter.Write` loop. -/
def twLoop (w : World) (tb : Tables) : Nat → St → TW → Bytes → St × TW × Bool × Bool
  | 0, st, t, _ => (st, t, true, true)
  | fuel + 1, st, t, data =>
    if t.err then (st, t, true, false) else
    let got := (t.buffer.getD []).length
    let remaining : Int := t.expecting - got
    if remaining < 0 then (st, t, true, true) else    -- Go: slice bounds out of range
    if (data.length : Int) < remaining then
      (st, { t with buffer := some ((t.buffer.getD []) ++ data) }, false, false)
    else
      let k := remaining.toNat
      let t := { t with buffer := some ((t.buffer.getD []) ++ data.take k) }
      let rest := data.drop k
      if t.writingEnvelope then
        match st.op.serverEnveloper, t.buffer with
        | some se, some [f, a, b, c, d] =>
          let t := { t with buffer := some [] }
          match se.decode f a b c d with
          | none => let (st, p) := reportError w st (.rpc 3); (st, t, true, p)
          | some env =>
            let t := { t with latest := env }
            if env.length > st.op.conf.maxMsg then let (st, p) := reportError w st (.rpc 8); (st, t, true, p)
            else twLoop w tb fuel st { t with buffer := some [], expecting := env.length, writingEnvelope := false,
                                              msgCompressed := env.compressed } rest
        | _, _ => (st, t, true, true)
      else
        let (st, t, err, p) := twFlushMessage w tb st t
        if p then (st, t, true, true) else
        if let some e := err then let (st, p) := reportError w st e; (st, t, true, p) else
        if t.latest.trailer && rest.isEmpty then (st, t, false, false)
        else twLoop w tb fuel st { t with expecting := 5, writingEnvelope := true } rest

/-- `transformingWriter.Write`. -/
def twWrite (w : World) (tb : Tables) (st : St) (t : TW) (data : Bytes) : St × TW × Bool × Bool :=
  if t.err then (st, t, true, false) else
  let t := if t.buffer.isNone then twReset st t else t
  if t.expecting == -1 then
    if data.length + (t.buffer.getD []).length > st.op.conf.maxMsg then
      let (st, p) := reportError w st (.rpc 8); (st, t, true, p)
    else (st, { t with buffer := some ((t.buffer.getD []) ++ data) }, false, false)
  else twLoop w tb (2 * data.length + 4) st t data

/-- `transformingWriter.Close`. -/
def twClose (w : World) (tb : Tables) (st : St) (t : TW) : St × Bool :=
  if st.rw.endWritten then (st, false)
  else if t.expecting == -1 then
    let (st, _, err, p) := twFlushMessage w tb st t
    if p then (st, true) else if let some e := err then reportError w st e else (st, false)
  else if t.buffer.isSome && (!(t.buffer.getD []).isEmpty || (!t.writingEnvelope && t.expecting > 0)) then
    reportError w st .other        -- unfinished envelope, or an announced message that never came
  else (st, false)

/-- `responseWriter.WriteHeader`, middle part: the backend's response head is taken apart into the
    response meta data (protocol headers, declared trailer keys); what is left in the header map
    are application headers. -/
def rwPrepareMeta (tb : Tables) (st : St) (status : Nat) (cl : Int) (clText : Bytes) : St × RespMeta × EndBody :=
  let s1 := if clText.isEmpty then st else st.setHdr (st.hdr.del (s "Content-Length"))
  let s2 : St := { s1 with rw := { s1.rw with contentLen := cl } }
  let x := s2.op.sform.extractResponseHeaders tb status s2.hdr      -- (meta, kind of error body, remaining headers)
  let s3 := s2.setHdr x.2.2
  -- snapshot trailer keys
  let keys := (parseMultiHeader (s3.hdr.values (s "Trailer"))).map canonKey
  let rm : RespMeta := if keys.isEmpty then x.1 else { x.1 with pendingTrailerKeys := keys }
  let s4 := if keys.isEmpty then s3 else s3.setHdr (s3.hdr.del (s "Trailer"))
  let s5 := s4.setHdr ((s4.hdr.del (s "Content-Encoding")).del (s "Accept-Encoding"))
  ({ s5 with rw := { s5.rw with respMeta := some rm } }, rm, x.2.1)

def rwSetRespComp (st : St) (comp : Bytes) : St :=
  if comp.isEmpty then st else { st with rw := { st.rw with cRespComp := some comp } }

def rwSetWriter (st : St) (k : WK) : St := { st with rw := { st.rw with w := k } }

/-- A response body follows: the head is flushed now, unless the client's protocol needs the end
    of the RPC in the head (then the whole response is buffered). -/
def rwStartBody (w : World) (st : St) : St × Bool :=
  let sameResp := st.op.ccodec == st.op.scodec
  let s2 : St := { st with rw := { st.rw with sameRespCodec := sameResp } }
  let r : St × Bool :=
    if s2.op.cform.endMustBeInHeaders then ({ s2 with rw := { s2.rw with buf := some [] } }, false)
    else flushHeaders w s2
  (rwSetWriter r.1 (if sameResp then .enveloping {} else .transforming {}), r.2)

/-- `responseWriter.WriteHeader`, last part: choose the writer for the body. -/
def rwChooseWriter (w : World) (st : St) (rm : RespMeta) (endBody : EndBody) : St × Bool :=
  let comp := if rm.compression == identityName then [] else rm.compression
  if !comp.isEmpty && !w.knownCompression comp then reportError w st .other else
  let s1 := rwSetRespComp st comp
  match rm.end with
  | some _ =>
    if endBody != .none then (rwSetWriter s1 (.errorWriter (some []) endBody), false)
    else (rwSetWriter (flushHeaders w s1).1 .noBody, (flushHeaders w s1).2)
  | none =>
    if !rm.codec.isEmpty && rm.codec != s1.op.scodec then reportError w s1 .other else rwStartBody w s1

/-- `responseWriter.WriteHeader`. -/
def rwWriteHeader (w : World) (tb : Tables) (st : St) (status : Nat) : St × Bool :=
  if st.rw.headersWritten then (st, false) else
  let st := { st with rw := { st.rw with headersWritten := true, statusCode := status } }
  if st.rw.endWritten then (st, false) else
  -- httpExtractContentLength
  let clText := st.hdr.get (s "Content-Length")
  let cl? : Option Int :=
    if clText.isEmpty then some (-1)
    else match parseInt64 clText with     -- strconv.Atoi
      | some n => if n < 0 then none else some n
      | none => none
  match cl? with
  | none => reportError w st .other
  | some cl =>
    let (st, rm, endBody) := rwPrepareMeta tb st status cl clText
    rwChooseWriter w st rm endBody

/-- `responseWriter.Write`. Returns (state, error?, panic?). -/
def rwWrite (w : World) (tb : Tables) (st : St) (data : Bytes) : St × Bool × Bool :=
  let r0 : St × Bool := if st.rw.headersWritten then (st, false) else rwWriteHeader w tb st 200
  if r0.2 then (r0.1, true, true) else
  if r0.1.rw.err then (r0.1, true, false) else
  match r0.1.rw.w with
  | .enveloping e =>
    let x := ewWrite w tb r0.1 e data
    ({ x.1 with rw := { x.1.rw with w := .enveloping x.2.1 } }, x.2.2.1, x.2.2.2)
  | .transforming t =>
    let x := twWrite w tb r0.1 t data
    ({ x.1 with rw := { x.1.rw with w := .transforming x.2.1 } }, x.2.2.1, x.2.2.2)
  | .errorWriter body kind =>
    match body with
    | none => (r0.1, true, false)
    | some b =>
      if data.length + b.length > r0.1.op.conf.maxMsg then
        ((reportError w r0.1 (.rpc 8)).1, true, (reportError w r0.1 (.rpc 8)).2)
      else ({ r0.1 with rw := { r0.1.rw with w := .errorWriter (some (b ++ data)) kind } }, false, false)
  | .noBody => (r0.1, true, false)
  | .unset => (r0.1, true, true)

/-- `errorWriter.Close`: the end of the RPC as the buffered error body describes it. -/
def errorWriterEnd (w : World) (tb : Tables) (st : St) (body : Bytes) (kind : EndBody) : RespEnd :=
  let rm := st.rw.respMeta.getD {}
  let e : RespEnd := rm.end.getD {}
  let (e, body?) : RespEnd × Option Bytes :=
    match st.rw.cRespComp with
    | some z =>
      if body.isEmpty then (e, some body)
      else match (decompressLimited w z body st.op.conf.maxMsg).toOption with
        | some d => (e, some d)
        | none =>
          let http := if e.httpCode == 0 || e.httpCode == 200 then 500 else e.httpCode
          ({ e with httpCode := http, err := some (genErr 13) }, none)
    | none => (e, some body)
  match body?, kind with
  | some b, .connectUnaryError =>
    match tb.jsonErr b with
    | some err => { e with err := some (if err.code == 0 then { err with code := httpStatusToRPC st.rw.statusCode } else err) }
    | none => { e with err := some (genErr (httpStatusToRPC st.rw.statusCode)) }
  | _, _ => e

/-- `errorWriter.Close`. -/
def errorWriterClose (w : World) (tb : Tables) (st : St) (body : Bytes) (kind : EndBody) : St × Bool :=
  let rm := st.rw.respMeta.getD {}
  flushHeaders w { st with rw := { st.rw with respMeta := some { rm with «end» := some (errorWriterEnd w tb st body kind) } } }

/-- `responseWriter.close`, first part: the writer for the body is closed. -/
def rwCloseWriter (w : World) (tb : Tables) (st : St) : St × Bool :=
  match st.rw.w with
  | .enveloping e =>
    if st.rw.endWritten then ewClose w st e
    else
      let x := ewWrite w tb st e []
      if x.2.2.2 then (x.1, true) else ewClose w x.1 x.2.1
  | .transforming t =>
    if st.rw.endWritten then twClose w tb st t
    else
      let x := twWrite w tb st t []
      if x.2.2.2 then (x.1, true) else twClose w tb x.1 x.2.1
  | .errorWriter body kind =>
    match body with
    | some b => errorWriterClose w tb st b kind
    | none => (st, false)
  | _ => (st, false)

/-- `responseWriter.close`, last part: the end of the RPC is taken from the response meta data or
    from the HTTP trailers the handler set. -/
def rwCloseEnd (w : World) (tb : Tables) (st : St) : St × Bool :=
  if st.rw.endWritten then (st, false) else
  let rm := st.rw.respMeta.getD {}
  match rm.end with
  | some e => reportEnd w st e
  | none =>
    let x := httpExtractTrailers st.hdr rm.pendingTrailerKeys     -- (trailers, remaining headers)
    let s1 := st.setHdr x.2
    match s1.op.sform.extractEndFromTrailers tb x.1 with
    | none => reportError w s1 .other
    | some e => reportEnd w s1 e

/-- `responseWriter.close`. -/
def rwClose (w : World) (tb : Tables) (st : St) : St × Bool :=
  let r0 : St × Bool := if st.rw.headersWritten then (st, false) else rwWriteHeader w tb st 200
  if r0.2 then (r0.1, true) else
  let r1 := rwCloseWriter w tb r0.1
  if r1.2 then (r1.1, true) else rwCloseEnd w tb r1.1

end Vanguard
