import Vanguard.Model.Handle
/-!
  `Transcoder.ServeHTTP` as a whole: the four branches (reject, unknown-endpoint handler,
  pass-through, `handle`), the scripted backend, and the observation of both ends.
-/
namespace Vanguard

/-- One step of the scripted backend handler. -/
inductive BOp where
  | readn (k buf : Nat)        -- read until k bytes were read by this op (buffer `buf`), or error
  | readfix (k buf : Nat)      -- the same with every `Read` asking for `buf` bytes (proxy-style reader)
  | readall (buf : Nat)        -- read with buffer `buf` until an error
  | sethdr (k v : Bytes)
  | addhdr (k v : Bytes)
  | status (code : Nat)
  | write (b : Bytes)
  | flush
  | close                      -- `request.Body.Close()`
  deriving Repr

inductive Dispatch where
  | none | svc | unknown
  deriving Repr, DecidableEq

/-- What the backend handler saw and did. -/
structure BackendObs where
  method : Bytes := []
  path : Bytes := []
  rawQuery : Bytes := []
  protoMajor : Nat := 0
  contentLength : Int := 0
  headers : Hdr := []
  read : Bytes := []
  readEnd : Option Err := none     -- none = still open
  writes : List Bool := []         -- per write: failed?
  /-- after every read op: (bytes delivered to the handler so far, bytes taken from the client's body so far) -/
  readProg : List (Nat × Nat) := []
  /-- after every write op: (items written to the client so far, items written when last flushed) -/
  writeProg : List (Nat × Option Nat) := []
  deriving Repr

structure Obs where
  dispatch : Dispatch := .none
  backend : BackendObs := {}
  sink : Sink := {}
  panic : Bool := false
  passThrough : Bool := false
  deriving Repr

structure Scenario where
  conf : TConf
  req : Req
  src : Source
  script : List BOp
  tables : Tables


/-- `http.Error` as used by `httpError.Encode`. -/
def httpErrorResponse (k : Sink) (code : Nat) (allow : Option Bytes) : Sink :=
  let h := match allow with
    | some a => Hdr.add k.hdr (s "Allow") a
    | none => k.hdr
  let h := ((h.del (s "Content-Length")).set (s "Content-Type") (s "text/plain; charset=utf-8")).set
    (s "X-Content-Type-Options") (s "nosniff")
  ({ k with hdr := h }.writeHeader code).writeItem (.raw (s "<gen>"))

def rawReadN (k buf : Nat) (capped : Bool := true) : Nat → Source → Nat → Bytes → Option Err → Source × Bytes × Option Err
  | 0, src, _, rd, re => (src, rd, re)
  | fuel + 1, src, got, rd, re =>
    if got ≥ k then (src, rd, re) else
    let (b, e, src) := src.read (if capped then min buf (k - got) else buf)
    match e with
    | some err => (src, rd ++ b, some err)
    | none => rawReadN k buf capped fuel src (got + b.length) (rd ++ b) re

def rawReadAll (buf : Nat) : Nat → Source → Bytes → Source × Bytes × Option Err
  | 0, src, rd => (src, rd, some .other)
  | fuel + 1, src, rd =>
    let (b, e, src) := src.read buf
    match e with
    | some err => (src, rd ++ b, some err)
    | none => rawReadAll buf fuel src (rd ++ b)

def flightReadN (w : World) (pl : HandlePlan) (k buf : Nat) (capped : Bool := true) : Nat → Flight → Nat → Bytes → Option Err → Flight × Bytes × Option Err
  | 0, f, _, rd, re => (f, rd, re)
  | fuel + 1, f, got, rd, re =>
    if got ≥ k || f.panic then (f, rd, re) else
    let (bs, e, f) := f.read w pl (if capped then min buf (k - got) else buf)
    match e with
    | some err => (f, rd ++ bs, some err)
    | none => flightReadN w pl k buf capped fuel f (got + bs.length) (rd ++ bs) re

def flightReadAll (w : World) (pl : HandlePlan) (buf : Nat) : Nat → Flight → Bytes → Flight × Bytes × Option Err
  | 0, f, rd => (f, rd, some .other)
  | fuel + 1, f, rd =>
    if f.panic then (f, rd, some .other) else
    let (bs, e, f) := f.read w pl buf
    match e with
    | some err => (f, rd ++ bs, some err)
    | none => flightReadAll w pl buf fuel f (rd ++ bs)

/-- A handler working directly on the client's request and writer (pass-through / unknown). -/
def Source.left (src : Source) : Nat := src.chunks.flatten.length

structure RawRun where
  closed : Bool := false
  src : Source
  sink : Sink
  read : Bytes := []
  readEnd : Option Err := none
  writes : List Bool := []
  readProg : List (Nat × Nat) := []
  writeProg : List (Nat × Option Nat) := []

def runRaw (script : List BOp) (src : Source) (sink : Sink) : RawRun :=
  let total0 := src.left
  script.foldl (fun (a : RawRun) op =>
    match op with
    | .readn k buf =>
      let a := if a.closed then { a with readEnd := if k == 0 then a.readEnd else some .other } else
        let (src, rd, re) := rawReadN k buf true (k + 2) a.src 0 a.read a.readEnd
        { a with src := src, read := rd, readEnd := re }
      { a with readProg := a.readProg ++ [(a.read.length, total0 - a.src.left)] }
    | .readfix k buf =>
      let a := if a.closed then { a with readEnd := if k == 0 then a.readEnd else some .other } else
        let (src, rd, re) := rawReadN k buf false (k + 2) a.src 0 a.read a.readEnd
        { a with src := src, read := rd, readEnd := re }
      { a with readProg := a.readProg ++ [(a.read.length, total0 - a.src.left)] }
    | .readall buf =>
      let a := if a.closed then { a with readEnd := some .other } else
        let (src, rd, re) := rawReadAll buf a.src.fuel a.src a.read
        { a with src := src, read := rd, readEnd := re }
      { a with readProg := a.readProg ++ [(a.read.length, total0 - a.src.left)] }
    | .sethdr k v => { a with sink := { a.sink with hdr := a.sink.hdr.set k v } }
    | .addhdr k v => { a with sink := { a.sink with hdr := Hdr.add a.sink.hdr k v } }
    | .status c => { a with sink := a.sink.writeHeader c }
    | .write b =>
      let sink := a.sink.write b
      let code := sink.status.getD 200
      let bodyAllowed := !((100 ≤ code && code ≤ 199) || code == 204 || code == 304)
      { a with sink := sink, writes := a.writes ++ [!bodyAllowed],
               writeProg := a.writeProg ++ [(sink.items.length, sink.flushedN)] }
    | .flush => { a with sink := a.sink.flush }
    | .close => { a with closed := true }) { src := src, sink := sink }

/-- Interpretation of the scripted handler against the transcoding adapters. -/
def runScript (w : World) (tb : Tables) (pl : HandlePlan) (script : List BOp) (total0 : Nat) (f : Flight) : Flight × BackendObs :=
  script.foldl (fun (acc : Flight × BackendObs) op =>
    let (f, b) := acc
    if f.panic then (f, b) else
    match op with
    | .readn k buf =>
      let (f, rd, re) := flightReadN w pl k buf true (k + 2) f 0 b.read b.readEnd
      (f, { b with read := rd, readEnd := re, readProg := b.readProg ++ [(rd.length, total0 - f.st.src.left)] })
    | .readfix k buf =>
      let (f, rd, re) := flightReadN w pl k buf false (k + 2) f 0 b.read b.readEnd
      (f, { b with read := rd, readEnd := re, readProg := b.readProg ++ [(rd.length, total0 - f.st.src.left)] })
    | .readall buf =>
      let (f, rd, re) := flightReadAll w pl buf (300 * f.st.src.fuel + 300 * f.st.op.query.length * 64 + 1048576) f b.read
      (f, { b with read := rd, readEnd := re, readProg := b.readProg ++ [(rd.length, total0 - f.st.src.left)] })
    | .sethdr k v => ({ f with st := f.st.setHdr (f.st.hdr.set k v) }, b)
    | .addhdr k v => ({ f with st := f.st.setHdr (Hdr.add f.st.hdr k v) }, b)
    | .status c =>
      let (st, p) := rwWriteHeader w tb f.st c
      ({ f with st := st, panic := f.panic || p }, b)
    | .write data =>
      let (st, failed, p) := rwWrite w tb f.st data
      ({ f with st := st, panic := f.panic || p },
       { b with writes := b.writes ++ [failed], writeProg := b.writeProg ++ [(st.sink.items.length, st.sink.flushedN)] })
    | .flush => (f, b)
    | .close => (f.close, b)) (f, {})

/-- `operation.reportError` before a `responseWriter` exists (the operation is valid). -/
def opReportError (o : Op) (k : Sink) (err : Err) : Sink × Bool :=
  let code := match err with
    | .rpc c => c
    | _ => 13
  match httpStatusFromRPC code with
  | none => (k, true)
  | some http =>
    let e : RespEnd := { err := some (genErr code), httpCode := http }
    let (status, k) := addResponseHeaders o.cform { «end» := some e, codec := o.ccodec } k
    match status with
    | none => (k, true)
    | some sc => (encodeEnd o.cform e true (k.writeHeader sc), false)

/-- The query string of a Connect GET request for decoded value `v`
    (`connectUnaryServerProtocol.requestLine`: stable encoding, optional compression, base64 for
    binary or compressed data, `url.Values.Encode`). -/
def connectGetQueryString (w : World) (o : Op) (v : Bytes) : Bytes :=
  let data := w.encode o.scodec v
  let data := match o.sReqComp with
    | some z => w.compress z data
    | none => data
  let useB64 := w.binary o.scodec || o.sReqComp.isSome
  let msgStr := if useB64 then b64RawUrlEncode data else data
  let kvs : List (Bytes × Bytes) :=
    (if useB64 then [(s "base64", [0x31])] else []) ++
    (match o.sReqComp with | some z => [(s "compression", z)] | none => []) ++
    [(s "connect", s "v1"), (s "encoding", o.scodec), (s "message", msgStr)]
  encodeQuery kvs

/-- `some query` = issue GET with this query, `none` = the URL is too long: fall back to POST. -/
def connectGetQuery (w : World) (o : Op) (v : Bytes) : Option Bytes :=
  let q := connectGetQueryString w o v
  if o.conf.path.length + q.length + 1 > o.conf.maxGetURL then none else some q

/-- Forwarding untouched: the handler works directly on the client's request and writer.  This is
    the *specification* of pass-through / unknown-endpoint handling (C13): what the handler sees is the
    client's request (method, URL, version, every header, declared length, body bytes) and what the
    client sees is exactly what the handler does. -/
def forwardObs (sc : Scenario) (disp : Dispatch) : Obs :=
  let r := sc.req
  let a := runRaw sc.script sc.src {}
  { dispatch := disp, passThrough := true, sink := a.sink,
    backend := { method := r.method, path := r.path, rawQuery := r.rawQuery, protoMajor := r.protoMajor,
                 contentLength := r.contentLength, headers := r.headers, read := a.read, readEnd := a.readEnd,
                 writes := a.writes, readProg := a.readProg, writeProg := a.writeProg } }

/-- `operation.handle`, before the backend is called: a Connect GET target needs the first
    message for its request line.  `.error` = the RPC ends here with this response. -/
def transcodePre (w : World) (o : Op) (pl : HandlePlan) (st0 : St) : Except (Sink × Bool) (St × Option (Bytes × Bool)) :=
  if pl.useGet then
    let rr := readRequestMessage w st0 false
    let res : Except Err (Bytes × Bool) := match rr.1 with
      | .error .eof => .ok ([], o.cReqComp.isSome && o.clientEnveloper.isNone)
      | x => x
    match res with
    | .error e => .error (opReportError o rr.2.1.sink e)
    | .ok (data, wasCompressed) =>
      match decodeRequest w o pl data wasCompressed with
      | .error e => .error (opReportError o rr.2.1.sink e)
      | .ok v => .ok (rr.2.1, some (v, wasCompressed))
  else .ok (st0, none)

/-- The request state the backend handler starts with. -/
def transcodeStartState (st : St) (skipBody : Bool) : St :=
  let st : St := { st with rw := { st.rw with active := true } }
  -- drainBody for a skipped body
  if skipBody then { st with src := { st.src with chunks := [] } } else st

/-- The state when `ServeHTTP` returns: the handler ran, the response writer is closed (unless
    the handler's goroutine panicked). -/
def transcodeFinish (w : World) (tb : Tables) (f : Flight) : St × Bool :=
  if f.panic then (f.st, true) else rwClose w tb f.st

/-- `operation.handle` with the backend handler. -/
def transcodeRun (w : World) (sc : Scenario) (o : Op) (pl : HandlePlan) (st : St) (first : Option (Bytes × Bool)) : Obs :=
  let r := sc.req
  -- request line
  let (bmethod, bquery, skipBody, serverPrepNow) : Bytes × Bytes × Bool × Bool :=
    match first with
    | some (v, _) =>
      match connectGetQuery w o v with
      | some q => (sGET, q, true, true)
      | none => (sPOST, [], false, false)
    | none => (sPOST, [], false, false)
  let acc := intersection w.knownCompression o.reqMeta.acceptCompression
  let serverMeta : ReqMeta := { o.reqMeta with codec := o.scodec, compression := o.sReqComp.getD [], acceptCompression := acc }
  let bh := o.sform.addRequestHeaders serverMeta o.headers
  let rd : Reader :=
    if skipBody then .raw
    else if pl.sameReqCompression && pl.sameReqCodec && !pl.mustDecode then .enveloping {}
    else
      match first with
      | some (v, wasCompressed) =>
        let out := encodeRequest w o serverPrepNow v wasCompressed
        match requestEnvelope o out wasCompressed with
        | .ok envB => .transforming { consumedFirst := true, buffer := some out, env := envB, envRemain := envB.length }
        | .error e => .transforming { consumedFirst := true, err := some e }
      | none => .transforming {}
  let run := runScript w sc.tables pl sc.script sc.src.left { st := transcodeStartState st skipBody, rd := rd }
  let fin := transcodeFinish w sc.tables run.1
  { dispatch := .svc, sink := fin.1.sink, panic := fin.2,
    backend := { run.2 with method := bmethod, path := o.conf.path, rawQuery := bquery,
                            protoMajor := if o.sform == .grpc then 2 else r.protoMajor,
                            contentLength := -1, headers := bh } }

/-- `Transcoder.ServeHTTP` for a request that needs conversion. -/
def serveTranscode (w : World) (sc : Scenario) (o : Op) : Obs :=
  let pl := o.plan w
  match transcodePre w o pl { op := o, src := sc.src, sink := {} } with
  | .error (sink, p) => { sink := sink, panic := p }
  | .ok (st, first) => transcodeRun w sc o pl st first

/-- `Transcoder.ServeHTTP`. -/
def serve (w : World) (sc : Scenario) : Obs :=
  let r := sc.req
  let raw (disp : Dispatch) (_passThrough : Bool) : Obs := forwardObs sc disp
  match validate w sc.conf r with
  | .error .notFound =>
    if sc.conf.unknownHandler then raw .unknown true
    else { sink := httpErrorResponse {} 404 none }
  | .error (.status code allow) => { sink := httpErrorResponse {} code allow }
  | .ok o =>
    if o.passThrough then
      let ob := raw .svc true
      -- validate() rewrites the protocol version for gRPC targets
      if o.sform == .grpc then { ob with backend := { ob.backend with protoMajor := 2 } } else ob
    else serveTranscode w sc o

end Vanguard
