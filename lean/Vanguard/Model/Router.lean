import Vanguard.Model.Template
/-!
  Model of `router.go`: `routeTrie.insert`, `match`, `findTarget`, `getTarget`,
  `routeTargetVar.capture/index`, `computeVarValues`.

  The prefix trie is modelled by its denotation: the flat list of inserted routes, each carrying
  the template segments not yet consumed on the way down.  `children seg` is the sub-trie reached
  through the child edge `seg`; an absent child is the empty list.  `findTarget` recurses on the
  request path exactly as the Go code does: literal child, then `*`, then `**`; a branch wins as
  soon as it yields a target *or* a non-nil method set.
-/
namespace Vanguard

structure Route where
  segs : List Bytes      -- segments still to be matched below the current trie node
  verb : Bytes
  method : Bytes         -- HTTP method of the binding ("*" = any)
  idx : Nat              -- identity of the binding (registration index)
  tmpl : Template        -- the whole parsed template (for captures)
  deriving Repr, DecidableEq

inductive Found where
  | target (r : Route)
  | methods (ms : List Bytes)   -- path and verb matched, method did not: 405 with Allow
  | none
  deriving Repr, DecidableEq

def wildcardMethod : Bytes := [0x2A]

/-- `getTarget`: the routes that end at this node with the given verb. -/
def getTarget (routes : List Route) (verb method : Bytes) : Found :=
  let here := routes.filter fun r => r.segs.isEmpty && r.verb == verb
  if here.isEmpty then .none else
  match here.find? (·.method == method) with
  | some r => .target r
  | none =>
    match here.find? (·.method == wildcardMethod) with
    | some r => .target r
    | none => .methods (here.map (·.method))

/-- The sub-trie below child edge `seg`. -/
def children (seg : Bytes) (routes : List Route) : List Route :=
  routes.filterMap fun r =>
    match r.segs with
    | s :: t => if s == seg then some { r with segs := t } else none
    | [] => none

/-- `findTarget`. -/
def findTarget (routes : List Route) : List Bytes → Bytes → Bytes → Found
  | [], verb, method => getTarget routes verb method
  | cur :: rest, verb, method =>
    match findTarget (children cur routes) rest verb method with
    | .none =>
      match findTarget (children starSeg routes) rest verb method with
      | .none => getTarget (children dstarSeg routes) verb method
      | r => r
    | r => r

/-- `strings.Split(s, sep)` for a one-byte separator. -/
def splitOnByte (sep : UInt8) : Bytes → List Bytes
  | [] => [[]]
  | c :: rest =>
    if c == sep then [] :: splitOnByte sep rest
    else match splitOnByte sep rest with
      | h :: t => (c :: h) :: t
      | [] => [[c]]

def joinWith (sep : UInt8) : List Bytes → Bytes
  | [] => []
  | [a] => a
  | a :: rest => a ++ sep :: joinWith sep rest

/-- `routeTargetVar.capture`: `none` = error (bad escape), `panic` modelled by `Res`. -/
def captureVar (path : List Bytes) (v : PVar) : Res Bytes :=
  let parts? : Option (List Bytes) :=
    match v.stop with
    | none => some (path.drop v.start)
    | some e => if v.start ≤ e ∧ e ≤ path.length then some ((path.take e).drop v.start) else none
  match parts? with
  | none => .panic
  | some parts =>
    let mode := if v.stop.isNone || parts.length > 1 then PathMode.multi else PathMode.single
    match parts.mapM (pathUnescape mode) with
    | none => .err
    | some vals => .ok (joinWith 0x2F vals)

def captureAll (path : List Bytes) : List PVar → Res (List Bytes)
  | [] => .ok []
  | v :: vs =>
    match captureVar path v with
    | .ok x => match captureAll path vs with
      | .ok xs => .ok (x :: xs)
      | .err => .err
      | .panic => .panic
    | .err => .err
    | .panic => .panic

inductive MatchRes where
  | found (idx : Nat) (vars : List Bytes)
  | allow (methods : List Bytes)
  | none
  | panic
  deriving Repr, DecidableEq

/-- Split the last path element at its first `:` into (element, verb). -/
def splitVerb (path : List Bytes) : List Bytes × Bytes :=
  match path.getLast? with
  | none => (path, [])
  | some last =>
    if last.contains 0x3A then
      (path.dropLast ++ [last.takeWhile (· != 0x3A)], (last.dropWhile (· != 0x3A)).drop 1)
    else (path, [])

/-- `routeTrie.match`. -/
def routeMatch (routes : List Route) (uriPath method : Bytes) : MatchRes :=
  match uriPath with
  | 0x2F :: rest =>
    if uriPath.getLast? == some 0x3A then .none else
    let (path, verb) := splitVerb (splitOnByte 0x2F rest)
    match findTarget routes path verb method with
    | .none => .none
    | .methods ms => .allow ms
    | .target r =>
      match captureAll path r.tmpl.vars with
      | .ok vars => .found r.idx vars
      | .err => .none
      | .panic => .panic
  | _ => .none

/-- `routeTrie.insert` over a list of `(method, template)` rules, as `addRoute` does for each
    binding: `Except.error i` = rule `i` is rejected (template does not parse, or a binding with the
    same segments, verb and method already exists). -/
def addRoutes : Nat → List Route → List (Bytes × Bytes) → Except Nat (List Route)
  | _, acc, [] => .ok acc
  | i, acc, (method, tmplText) :: rest =>
    match parseTemplate tmplText with
    | none => .error i
    | some t =>
      if acc.any (fun r => r.segs == t.segs && r.verb == t.verb && r.method == method) then .error i
      else addRoutes (i + 1) (acc ++ [{ segs := t.segs, verb := t.verb, method := method, idx := i, tmpl := t }]) rest

end Vanguard
