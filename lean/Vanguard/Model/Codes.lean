import Vanguard.Model.Basic
/-!
  Model of `protocol_http.go`: `httpStatusCodeFromRPCIndex`, `httpStatusCodeFromRPC`,
  `httpStatusCodeToRPC`.  `connect.Code` is a `uint32`, modelled as `Nat`.
-/
namespace Vanguard

/-- `httpStatusCodeFromRPCIndex` (also regenerated from source as `Gen.statusTable`). -/
def statusTable : List Nat :=
  [200, 499, 500, 400, 504, 404, 409, 403, 429, 400, 409, 400, 501, 500, 503, 500, 401]

/-- `httpStatusCodeFromRPC`, parameterised by the table and by the guard
    (`strict = true` is the pinned-tree guard `int(code) > len(table)`; `false` is `>=`).
    `none` = Go would panic with index out of range. -/
def httpStatusFromRPCWith (tbl : List Nat) (strict : Bool) (code : Nat) : Option Nat :=
  if (if strict then code > tbl.length else code ≥ tbl.length) then some 500 else tbl[code]?

/-- The model of the current tree (after `fix:` commit): guard is `>=`. -/
def httpStatusFromRPC (code : Nat) : Option Nat := httpStatusFromRPCWith statusTable false code

/-- `httpStatusCodeToRPC`: published HTTP → RPC code mapping. -/
def httpStatusToRPC (status : Int) : Nat :=
  if status = 200 then 0
  else if status = 400 then 13
  else if status = 401 then 16
  else if status = 403 then 7
  else if status = 404 then 12
  else if status = 429 ∨ status = 502 ∨ status = 503 ∨ status = 504 then 14
  else 2

end Vanguard
