import Lean.Data.Json
import Vanguard.Model.Config
import Vanguard.Spec.Config
import Driver.E2E
/-! JSON form of a `NewTranscoder` configuration (harness/config.go) and canonical rendering. -/
namespace Vanguard.Driver
open Lean Vanguard.Cfg

def sb (x : String) : Bytes := x.toUTF8.toList

def parseOpt (j : Json) : Option SvcOpt :=
  match strField j "kind" with
  | "protocols" => some (.protocols ((arrField j "nums").toList.filterMap fun x => (x.getNat?).toOption))
  | "codecs" => some (.codecs ((strList j "names").map sb))
  | "compress" => some (.compress ((strList j "names").map sb))
  | "maxMsg" => some (.maxMsg (natField j "n"))
  | "maxGet" => some (.maxGet (natField j "n"))
  | _ => none

def parseBinding (j : Json) : Binding :=
  let kind := strField j "kind"
  let (has, m) : Bool × String :=
    if kind == "none" then (false, "")
    else if kind.startsWith "custom:" then (true, (kind.drop 7).toString)
    else (true, kind.toUpper)
  { hasPattern := has, httpMethod := sb m, template := sb (strField j "path"), body := sb (strField j "body"),
    respBody := sb (strField j "resp"), nested := boolField j "nested" }

def parseConfig (j : Json) : Option (Config × List (Bytes × Bytes)) := do
  let sj ← (j.getObjVal? "schema").toOption
  let messages : List (Bytes × List FieldD) := match sj.getObjVal? "messages" with
    | .ok (.obj kvs) => kvs.toList.map fun (name, fs) =>
      (sb name, match fs with
        | .arr a => a.toList.map fun f =>
          { name := sb (strField f "name"), repeated := boolField f "repeated",
            message := if strField f "message" == "" then none else some (sb (strField f "message")),
            isMap := boolField f "isMap" }
        | _ => [])
    | _ => []
  let services : List ServiceD := (arrField sj "services").toList.map fun s =>
    { fullName := sb (strField s "name"),
      methods := (arrField s "methods").toList.map fun m =>
        { name := sb (strField m "name"), input := sb (strField m "in"), output := sb (strField m "out") } }
  let regs : List SvcReg := (arrField j "services").toList.map fun r =>
    { svc := sb (strField r "svc"), opts := (arrField r "opts").toList.filterMap parseOpt }
  let rules : List Rule := (arrField j "rules").toList.map fun r =>
    { selector := sb (strField r "selector"), main := { parseBinding r with nested := false },
      additional :=
        -- a main binding marked nested carries one extra (nested-free) additional binding "/nested",
        -- which the harness puts in front of the rule's other additional bindings
        (if boolField r "nested" then [{ hasPattern := true, httpMethod := sb "GET", template := sb "/nested", body := [], respBody := [], nested := false }] else []) ++
        ((arrField r "additional").toList.map parseBinding) }
  let probes : List (Bytes × Bytes) := (arrField j "probes").toList.filterMap fun p =>
    match p with
    | .arr #[.str m, .str u] => some (sb m, sb u)
    | _ => none
  pure ({ schema := { messages := messages, services := services },
          knownCodecs := (strList j "knownCodecs").map sb, knownCompressors := (strList j "knownCompressors").map sb,
          defaults := (arrField j "defaults").toList.filterMap parseOpt, services := regs, rules := rules }, probes)

def sortStrs (l : List String) : List String := (l.toArray.qsort (· < ·)).toList
def dedupStrs (l : List String) : List String := l.eraseDups

def errName : CfgErr → String
  | .noProtocols => "noProtocols" | .badProtocol => "badProtocol" | .noCodecs => "noCodecs"
  | .unknownCodec => "unknownCodec" | .unknownCompression => "unknownCompression" | .badMaxMsg => "badMaxMsg"
  | .badMaxGet => "badMaxGet" | .duplicateMethod => "duplicateMethod" | .unknownService => "unknownService"
  | .missingSelector => "missingSelector" | .wildcardNotAtEnd => "wildcardNotAtEnd" | .wildcardNotWhole => "wildcardNotWhole"
  | .ruleNoMatch => "ruleNoMatch" | .nestedBindings => "nestedBindings" | .noPattern => "noPattern"
  | .blankMethod => "blankMethod" | .blankTemplate => "blankTemplate" | .badTemplate => "badTemplate"
  | .badFieldPath => "badFieldPath" | .routeConflict => "routeConflict" | .restOnlyNoRules => "restOnlyNoRules"

def renderPattern (t : Template) : String :=
  bytesToString ((t.segs.flatMap fun sg => 0x2F :: sg) ++ (if t.verb.isEmpty then [] else 0x3A :: t.verb))

def renderTables (tb : CfgTables) (probes : List (Bytes × Bytes)) : String :=
  let ms := tb.methods.toArray.qsort (fun a b => bytesToString a.path < bytesToString b.path) |>.toList
  let mparts := ms.map fun m =>
    let protos := dedupStrs (sortStrs (m.opts.protocols.map toString))
    -- sort numerically: all are single digits here
    let codecs := dedupStrs (sortStrs (m.opts.codecs.map bytesToString))
    let comps := dedupStrs (sortStrs (m.opts.compressors.map bytesToString))
    let (rm, rp, rb, rr) : String × String × String × String := match m.rule with
      | some b => match parseTemplate b.template with
        | some t => (bytesToString b.httpMethod, toHex (sb (renderPattern t)), bytesToString b.body, bytesToString b.respBody)
        | none => ("?", "?", "?", "?")
      | none => ("", "-", "", "")
    s!"M\{{bytesToString m.path}|{",".intercalate protos}|{",".intercalate codecs}|{bytesToString m.opts.preferredCodec}|{",".intercalate comps}|{m.opts.maxMsg}|{m.opts.maxGet}|{rm}|{rp}|{rb}|{rr}}"
  let routes := tb.routes.map (·.route)
  let pparts := probes.map fun (m, u) =>
    match routeMatch routes u m with
    | .found idx vars =>
      match tb.routes.find? (·.route.idx == idx) with
      | some e =>
        let vs := (e.varPaths.zip vars).map fun (p, v) => p ++ [0x3D] ++ v
        s!"P\{{bytesToString e.methodPath}|{bytesToString e.body}|{bytesToString e.respBody}|{toHex (joinWith 0x26 vs)}}"
      | none => "P{?}"
    | _ => "P{none}"
  " ".intercalate ("accept" :: mparts ++ pparts)

def withConfig (h : String) (f : Config → List (Bytes × Bytes) → String) : String :=
  match (fromHex h).bind (fun b => (Json.parse (bytesToString b)).toOption) |>.bind parseConfig with
  | none => "bad-arg"
  | some (c, probes) => f c probes

def runConfig (h : String) : String := withConfig h fun c probes =>
  match newTranscoder c with
  | .error _ => "reject"
  | .ok tb => renderTables tb probes

/-- The error classes Go may report; `~` tells the checker not to compare this line textually. -/
def runConfigErr (h : String) : String := withConfig h fun c _ =>
  match newTranscoder c with
  | .error es => "~" ++ "|".intercalate (es.map errName)
  | .ok _ => "accepted"

/-- C17 oracle on the implementation's answer for one configuration. -/
def specConfig (h : String) (res : List String) : String := withConfig h fun c _ =>
  match res with
  | ["reject"] => "ok"     -- whether rejecting is right is the correspondence's business (model = spec of the phases)
  | "accept" :: toks =>
    let rows : List (List String) := toks.filterMap fun t =>
      if t.startsWith "M{" then some (((t.drop 2).dropEnd 1).toString.splitOn "|") else none
    let probes : List (List String) := toks.filterMap fun t =>
      if t.startsWith "P{" && t != "P{none}" then some (((t.drop 2).dropEnd 1).toString.splitOn "|") else none
    -- (a) every registered service resolves to servable options
    let badOpts := c.services.any fun r => !Spec.optsServable c (resolveOpts c.defaults r.opts)
    if badOpts then "fail accepted although a service has no usable protocols/codecs/compression/limits" else
    -- (b) every rule names at least one registered method
    let registered : List Bytes := c.services.flatMap fun r =>
      match c.schema.services.find? (·.fullName == r.svc) with
      | some sd => sd.methods.map fun m => sd.fullName ++ [0x2E] ++ m.name
      | none => []
    let unbound := c.rules.any fun r => !registered.any fun n => Spec.selectorNames r.selector n
    if unbound then "fail accepted although a rule selector names no registered method" else
    -- (c) a binding is served only for a method that some rule's selector names
    let fullOfPath (p : String) : Bytes :=            -- /pkg.Svc/Method -> pkg.Svc.Method
      (sb (p.drop 1).toString).map fun ch => if ch == 0x2F then 0x2E else ch
    let stray := probes.any fun p => match p with
      | mp :: _ => !c.rules.any fun r => Spec.selectorNames r.selector (fullOfPath mp)
      | _ => true
    if stray then "fail a REST binding serves a method that no rule selector names" else
    -- (d) options: the last setting wins, per service over defaults over built-in
    let wrong := rows.any fun row => match row with
      | path :: protos :: _ =>
        let svcName := ((path.drop 1).toString.splitOn "/").headD ""
        match c.services.find? (fun r => r.svc == sb svcName) with
        | some r =>
          let want := dedupStrs (sortStrs ((Spec.expectedProtocols c.defaults r.opts).map toString))
          ",".intercalate want != protos
        | none => true
      | _ => true
    if wrong then "fail a method's target protocols are not those of the last applicable option" else "ok"
  | _ => "fail unparsable result"

def specConfigErr (h : String) (res : List String) : String := withConfig h fun c _ =>
  match newTranscoder c, res with
  | .ok _, ["accepted"] => "ok"
  | .error es, [cls] => if (es.map errName).contains cls then "ok" else
      s!"fail rejected for a reason ({cls}) that is not among the defects of this configuration ({"|".intercalate (es.map errName)})"
  | .ok _, [cls] => s!"fail rejected ({cls}) although the configuration is servable"
  | _, _ => "fail accepted although the configuration cannot be served"

end Vanguard.Driver
