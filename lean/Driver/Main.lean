import Driver.Ops
import Driver.Spec
open Vanguard.Driver

def tokens (s : String) : List String := (s.splitOn " ").filter (· ≠ "")

partial def loopModel (h out : IO.FS.Stream) : IO Unit := do
  let line ← h.getLine
  if line.isEmpty then return ()
  out.putStrLn (dispatch (tokens line.trimAscii.toString))
  loopModel h out

partial def loopSpec (prop : String) (h out : IO.FS.Stream) : IO Unit := do
  let line ← h.getLine
  if line.isEmpty then return ()
  match line.trimAscii.toString.splitOn "\t" with
  | [op, res] => out.putStrLn (specCheck prop (tokens op) (tokens res))
  | _ => out.putStrLn "bad-line"
  loopSpec prop h out

def main (args : List String) : IO Unit := do
  let out ← IO.getStdout
  let inp ← IO.getStdin
  match args with
  | ["spec", prop] => loopSpec prop inp out
  | _ => loopModel inp out
  out.flush
