import Vanguard.Model.Basic
import Vanguard.Model.Codes
import Vanguard.Model.Percent
import Vanguard.Model.Timeout
import Vanguard.Model.Router
import Driver.E2E
import Vanguard.Model.Pool
import Driver.Config
import Driver.Rest
/-!
  Line protocol: one operation per line, `op arg …` (byte strings in hex, `-` = empty,
  numbers in decimal); one canonical result per line.  The Go harness prints the
  implementation's result for the same line; the check diffs the two streams.
-/
namespace Vanguard.Driver
open Vanguard

def optBytes : Option Bytes → String
  | some b => "ok " ++ toHex b
  | none => "err"

def optNat : Option Nat → String
  | some n => toString n
  | none => "panic"

def withHex (s : String) (f : Bytes → String) : String :=
  match fromHex s with
  | some b => f b
  | none => "bad-arg"

def withInt (s : String) (f : Int → String) : String :=
  match s.toInt? with
  | some k => f k
  | none => "bad-arg"

def showExtracted : Extracted → String
  | none => "reject"
  | some none => "none"
  | some (some d) => s!"some {d}"

def parseMode (m : String) : PathMode := if m == "multi" then .multi else .single

def showVars (vs : List PVar) : String :=
  if vs.isEmpty then "-" else
  ",".intercalate (vs.map fun v =>
    s!"{toHex v.fieldPath}:{v.start}:{match v.stop with | some e => toString e | none => "-1"}")

/-- rules text: lines `METHOD SP template`. -/
def parseRules (b : Bytes) : List (Bytes × Bytes) :=
  (splitOnByte 0x0A b).map fun line => (line.takeWhile (· != 0x20), (line.dropWhile (· != 0x20)).drop 1)

def showMatch : MatchRes → String
  | .found idx vars => String.intercalate " " (s!"found {idx}" :: vars.map toHex)
  | .allow ms => "allow " ++ toHex (joinWith 0x2C (sortBytes ms))
  | .none => "none"
  | .panic => "panic"

/-- Drop what legitimately depends on the segmentation (per-write results). -/
def projectForChunking (obs : String) : String :=
  " ".intercalate ((obs.splitOn " ").filter fun f => !f.startsWith "bw=")

def envOf : String → Option Enveloper
  | "grpc-client" => some .grpcClient
  | "grpc-server" => some .grpcServer
  | "grpcweb-client" => some .grpcWebClient
  | "grpcweb-server" => some .grpcWebServer
  | "connect-client" => some .connectStreamClient
  | "connect-server" => some .connectStreamServer
  | _ => none

def dispatch : List String → String
  | ["status_from_rpc", n] => match n.toNat? with
      | some k => optNat (httpStatusFromRPC k)
      | none => "bad-arg"
  | ["status_to_rpc", n] => match n.toInt? with
      | some k => toString (httpStatusToRPC k)
      | none => "bad-arg"
  | ["pct_enc", h] => withHex h fun b => toHex (grpcPercentEncode b)
  | ["pct_dec", h] => withHex h fun b => optBytes (grpcPercentDecode b)
  | ["parse_int64", h] => withHex h fun b => match parseInt64 b with
      | some n => s!"ok {n}"
      | none => "err"
  | ["format_int", n] => withInt n fun k => toHex (formatInt k)
  | ["grpc_dec", h] => withHex h fun b => match grpcDecodeTimeout b with
      | .ok d => s!"ok {d}"
      | .noTimeout => "notimeout"
      | .err => "err"
  | ["grpc_extract", h] => withHex h fun b => showExtracted (grpcExtractTimeout b)
  | ["grpc_enc", n] => withInt n fun k => toHex (grpcEncodeTimeout k)
  | ["connect_extract", h] => withHex h fun b => showExtracted (connectExtractTimeout b)
  | ["connect_enc", n] => withInt n fun k => toHex (connectEncodeTimeout k)
  | ["path_escape", m, h] => withHex h fun b => toHex (pathEscape (parseMode m) b)
  | ["path_unescape", m, h] => withHex h fun b => optBytes (pathUnescape (parseMode m) b)
  | ["tmpl_parse", h] => withHex h fun b => match parseTemplate b with
      | none => "err"
      | some t => s!"ok {toHex (joinWith 0x2F t.segs)} {toHex t.verb} {showVars t.vars}"
  | ["route", rules, path, method] =>
    match fromHex rules, fromHex path, fromHex method with
    | some rs, some p, some m =>
      match addRoutes 0 [] (parseRules rs) with
      | .error i => s!"reject {i}"
      | .ok routes => showMatch (routeMatch routes p m)
    | _, _, _ => "bad-arg"
  | ["env_dec", h, b] =>
    match envOf h, fromHex b with
    | some e, some [f, a, b1, c, d] => match e.decode f a b1 c d with
      | some env => s!"ok {env.trailer} {env.compressed} {env.length}"
      | none => "err"
    | _, _ => "bad-arg"
  | ["env_enc", h, t, c, n] =>
    match envOf h, n.toNat? with
    | some e, some len => toHex (e.encode { trailer := t == "true", compressed := c == "true", length := len })
    | _, _ => "bad-arg"
  | ["e2e", h] => runE2E h
  | ["e2e_fresh", h] => runE2E h
  | "e2e_conc" :: hs => " ## ".intercalate (hs.map runE2E) ++ " ## pool=ok"
  | ["pool_trace", t] =>
    let evs := (t.splitOn ",").map fun ev =>
      match ev.toList with
      | 'g' :: d => (String.ofList d).toNat?.map fun id => OwnEv.get 0 id false
      | 'r' :: d => (String.ofList d).toNat?.map fun id => OwnEv.get 0 id true
      | 'p' :: d => (String.ofList d).toNat?.map fun id => OwnEv.put 0 id
      | 'd' :: d => (String.ofList d).toNat?.map fun id => OwnEv.drop 0 id
      | _ => none
    if evs.any Option.isNone then "bad-op"
    else if checkTrace (evs.filterMap id) then "exclusive" else "shared"
  | ["rest_rt", h] => runRestRT h
  | ["rest_out", h] => runRestOut h
  | ["rest_out_cut", h] => runRestOutCut h
  | ["rest_in", h] => runRestIn h
  | ["rest_http", h] => runRestIn h
  | ["schema_tables", h] => runConfig h
  | ["schema_grpc", _] => "~same"
  | ["schema_req", _] => "~one outcome for every loading route"
  | ["schema_ext", _] => "~extension fields of a dynamically loaded schema survive in both directions"
  | ["schema_rev", _] => "~a type that only the loaded revision of a linked-in schema defines is resolved from the loaded schema"
  | ["schema_mixed", _] => "~a method with its request type in a shared file and its response type in the loaded file is served alike whatever the resolver"
  | ["schema_rest_grpc", _] => "~a response that is valid for a REST client"
  | ["config", h] => runConfig h
  | ["config_err", h] => runConfigErr h
  | ["e2e_hist", h] => runE2E h ++ " ## " ++ runE2E h
  | ["e2e_getpost", a, b] => runE2E a ++ " ## " ++ runE2E b
  | ["e2e_pair", a, b] => projectForChunking (runE2E a) ++ " ## " ++ projectForChunking (runE2E b)
  | _ => "bad-op"

end Vanguard.Driver
