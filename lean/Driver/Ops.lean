import Vanguard.Model.Basic
import Vanguard.Model.Codes
import Vanguard.Model.Percent
/-!
  Line protocol: one operation per line, `op arg …` (byte strings in hex, `-` = empty,
  numbers in decimal); one canonical result per line.  The Go harness prints the
  implementation's result for the same line; the check diffs the two streams.
-/
namespace Vanguard.Driver
open Vanguard

def optBytes : Option Bytes → String
  | some b => "ok " ++ toHex b
  | none => "err"

def optNat : Option Nat → String
  | some n => toString n
  | none => "panic"

def withHex (s : String) (f : Bytes → String) : String :=
  match fromHex s with
  | some b => f b
  | none => "bad-arg"

def dispatch : List String → String
  | ["status_from_rpc", n] => match n.toNat? with
      | some k => optNat (httpStatusFromRPC k)
      | none => "bad-arg"
  | ["status_to_rpc", n] => match n.toInt? with
      | some k => toString (httpStatusToRPC k)
      | none => "bad-arg"
  | ["pct_enc", h] => withHex h fun b => toHex (grpcPercentEncode b)
  | ["pct_dec", h] => withHex h fun b => optBytes (grpcPercentDecode b)
  | _ => "bad-op"

end Vanguard.Driver
