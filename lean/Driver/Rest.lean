import Lean.Data.Json
import Vanguard.Model.Rest
import Driver.Config
/-! Line protocol of the REST binding model (harness/rest.go). -/
namespace Vanguard.Driver
open Lean Vanguard.Cfg Vanguard.Rest

structure RestOp where
  schema : Schema
  rule : Rest.Rule
  leaves : Leaves
  method : Bytes
  epath : Bytes
  qparsed : List (Bytes × List Bytes)

def parseRestOp (j : Json) : Option RestOp := do
  let sj ← (j.getObjVal? "schema").toOption
  let messages : List (Bytes × List FieldD) := match sj.getObjVal? "messages" with
    | .ok (.obj kvs) => kvs.toList.map fun (name, fs) =>
      (sb name, match fs with
        | .arr a => a.toList.map fun f =>
          { name := sb (strField f "name"), repeated := boolField f "repeated",
            message := if strField f "message" == "" then none else some (sb (strField f "message")),
            isMap := boolField f "isMap", kind := sb (strField f "kind"), json := sb (strField f "json") }
        | _ => [])
    | _ => []
  let rj ← (j.getObjVal? "rule").toOption
  let b := parseBinding rj
  let leaves : Leaves := (arrField j "leaves").toList.filterMap fun l => match l with
    | .arr #[.str p, .str h] => (fromHex h).map fun v => (sb p, v)
    | _ => none
  let qparsed : List (Bytes × List Bytes) := (arrField j "qparsed").toList.filterMap fun row => match row with
    | .arr cells => match cells.toList.filterMap (fun c => c.getStr?.toOption) with
      | k :: vs => (fromHex k).map fun kb => (kb, vs.filterMap fromHex)
      | [] => none
    | _ => none
  pure { schema := { messages := messages, services := [] },
         rule := { httpMethod := b.httpMethod, template := b.template, body := b.body },
         leaves := leaves, method := sb (strField j "method"),
         epath := (fromHex (strField j "epath")).getD [], qparsed := qparsed }

def reqMsgName : Bytes := sb "Req"

def renderLeaves (m : Leaves) : String :=
  if m.isEmpty then "-" else ",".intercalate ((canonLeaves m).map fun l => bytesToString l.1 ++ "=" ++ toHex l.2)

def errClass : RErr → String
  | .invalid => "invalid_argument"
  | .other => "other"
  | .notFound => "notfound"

/-- Drop default-valued singular leaves (proto3 scalars have no presence). -/
def normalizeLeaves (sch : Schema) (m : Leaves) : Leaves :=
  m.filter fun l => match fieldPathOk sch reqMsgName l.1 with
    | some fs => match fs.getLast? with
      | some f => f.repeated || f.message.isSome || !isDefault f l.2
      | none => true
    | none => true

def groupQuery (q : List (Bytes × Bytes)) : List (Bytes × List Bytes) :=
  q.foldl (fun acc kv => match acc.find? (·.1 == kv.1) with
    | some _ => acc.map fun e => if e.1 == kv.1 then (e.1, e.2 ++ [kv.2]) else e
    | none => acc ++ [(kv.1, [kv.2])]) []

def withRestOp (h : String) (f : RestOp → String) : String :=
  match (fromHex h).bind (fun b => (Json.parse (bytesToString b)).toOption) |>.bind parseRestOp with
  | none => "bad-arg"
  | some op =>
    -- the rule must be one NewTranscoder accepts (Model/Config)
    let reg : MethodReg := { fullName := sb "cfg.v1.Lib.Get", path := sb "/cfg.v1.Lib/Get", input := reqMsgName, output := sb "Resp", opts := {} }
    let b : Binding := { hasPattern := true, httpMethod := op.rule.httpMethod, template := op.rule.template, body := op.rule.body, respBody := [], nested := false }
    if (bindingErr op.schema reg b).isSome then "config-rejected" else f op

def runRestRT (h : String) : String := withRestOp h fun op =>
  let m := normalizeLeaves op.schema op.leaves
  match restEncode op.schema reqMsgName op.rule m with
  | .error e => "encerr " ++ errClass e
  | .ok enc =>
    let bodyS := match enc.body with | none => "none" | some b => renderLeaves b
    let out := s!"enc {bytesToString op.rule.httpMethod} {toHex enc.path} {toHex (encodeQuery enc.query)} body={bodyS}"
    match restDecode op.schema reqMsgName op.rule op.rule.httpMethod enc.path (groupQuery enc.query) (enc.body.getD []) with
    | .error e => out ++ " decerr " ++ errClass e
    | .ok back =>
      let same := canonLeaves back == canonLeaves m
      out ++ " dec " ++ renderLeaves back ++ " same=" ++ (if same then "1" else "0")

/-- The round trip of `rest_rt` changes the message, and only in the way `multi_var_lowercase_slash_not_preserved`
    (C07) describes: the message comes back with every escaped slash spelled `%2f` in a value spelled `%2F`. -/
def rtOnlySlashSpelling (h : String) : Bool :=
  let r := withRestOp h fun op =>
    let m := normalizeLeaves op.schema op.leaves
    match restEncode op.schema reqMsgName op.rule m with
    | .error _ => "no"
    | .ok enc =>
      match restDecode op.schema reqMsgName op.rule op.rule.httpMethod enc.path (groupQuery enc.query) (enc.body.getD []) with
      | .error _ => "no"
      | .ok back =>
        -- leaf by leaf (both lists are sorted by field path, stably): equal, or - for a field the path template binds -
        -- equal up to the spelling of escaped slashes
        let a := canonLeaves back
        let b := canonLeaves m
        let inPath (k : Bytes) : Bool :=
          let pat := 0x7B :: k
          (List.range (op.rule.template.length + 1)).any fun i => hasPrefix pat (op.rule.template.drop i)
        if a != b && a.length == b.length &&
            (a.zip b).all (fun (x, y) => x.1 == y.1 && (x.2 == y.2 || (inPath y.1 && x.2 == canonSlash y.2))) then "yes" else "no"
  r == "yes"

/-- An RPC client in front of a REST-only service: the backend is invoked once with the request the
    rule prescribes, or not at all when the message does not fit the rule. -/
def runRestOut (h : String) : String := withRestOp h fun op =>
  let m := normalizeLeaves op.schema op.leaves
  match restEncode op.schema reqMsgName op.rule m with
  | .error _ => "disp=0 err"
  | .ok enc =>
    let bodyS := match enc.body with | none => "none" | some b => renderLeaves b
    s!"disp=1 enc {bytesToString op.rule.httpMethod} {toHex enc.path} {toHex (encodeQuery enc.query)} body={bodyS}"

/-- A cut message can never be made into a REST request: nothing is dispatched. -/
def runRestOutCut (h : String) : String := withRestOp h fun _ => "disp=0 err"

def runRestIn (h : String) : String := withRestOp h fun op =>
  let body : Leaves := if op.rule.body == [0x2A] then normalizeLeaves op.schema op.leaves else []
  match restDecode op.schema reqMsgName op.rule op.method op.epath op.qparsed body with
  | .error e => "err " ++ errClass e
  | .ok m => "dec " ++ renderLeaves m

end Vanguard.Driver
