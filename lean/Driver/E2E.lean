import Lean.Data.Json
import Vanguard.Model.Run
import Vanguard.Spec.Codes
import Vanguard.Spec.Progress
/-!
  The `e2e` op: parse a scenario (JSON in hex, written by harness/e2e.go), run the model's
  `serve`, and render the observation in exactly the canonical form the harness prints for the
  implementation.  The rendering re-parses the client-visible response according to the client's
  own protocol, independently of how the model produced it (see DESIGN §2.3, canonicalisation).
-/
namespace Vanguard.Driver
open Vanguard Lean

def hexField (j : Json) (k : String) : Option Bytes :=
  match j.getObjValAs? String k with
  | .ok v => fromHex v
  | .error _ => none

def strField (j : Json) (k : String) : String := (j.getObjValAs? String k).toOption.getD ""
def natField (j : Json) (k : String) : Nat := (j.getObjValAs? Nat k).toOption.getD 0
def intField (j : Json) (k : String) : Int := (j.getObjValAs? Int k).toOption.getD 0
def boolField (j : Json) (k : String) : Bool := (j.getObjValAs? Bool k).toOption.getD false
def arrField (j : Json) (k : String) : Array Json :=
  match j.getObjVal? k with
  | .ok (.arr a) => a
  | _ => #[]
def strList (j : Json) (k : String) : List String := (arrField j k).toList.filterMap fun x => x.getStr?.toOption

def protoOfName : String → Option Proto
  | "connect" => some .connect
  | "grpc" => some .grpc
  | "grpcweb" => some .grpcWeb
  | "rest" => some .rest
  | _ => none

def methodTable : List (String × StreamType × Bool) :=
  [("Unary", .unary, false), ("Get", .unary, true), ("CStream", .client, false),
   ("SStream", .server, false), ("Bidi", .bidi, false)]

/-- `url.ParseQuery` (first value per key; pairs with `;` or bad escapes are dropped). -/
def unescapeQuery : Bytes → Option Bytes
  | [] => some []
  | c :: rest =>
    if c == 0x2B then (unescapeQuery rest).map (0x20 :: ·)
    else if c == 0x25 then
      match rest with
      | a :: b :: rest' => if ishex a && ishex b then (unescapeQuery rest').map ((unhex a <<< 4 ||| unhex b) :: ·) else none
      | _ => none
    else (unescapeQuery rest).map (c :: ·)

def parseQuery (q : Bytes) : Query :=
  let pairs := (splitOn 0x26 q).filter (fun p => !p.isEmpty)
  pairs.foldl (fun (acc : Query) p =>
    if p.contains 0x3B then acc else
    let k := p.takeWhile (· != 0x3D)
    let v := (p.dropWhile (· != 0x3D)).drop 1
    match unescapeQuery k, unescapeQuery v with
    | some k, some v => if acc.any (fun e => e.1 == k) then acc else acc ++ [(k, v)]
    | _, _ => acc) []

/-- URL.Path from the raw path: percent-decoding (`url.ParseRequestURI`); `none` = bad URL. -/
def unescapePath : Bytes → Option Bytes
  | [] => some []
  | c :: rest =>
    if c == 0x25 then
      match rest with
      | a :: b :: rest' => if ishex a && ishex b then (unescapePath rest').map ((unhex a <<< 4 ||| unhex b) :: ·) else none
      | _ => none
    else (unescapePath rest).map (c :: ·)

def parseEntry (v : Json) : Option (Option RpcErr × Hdr) :=
  if !boolField v "valid" then none else
  let err : Option RpcErr :=
    if boolField v "hasErr" then
      some { code := natField v "code", msg := .text ((hexField v "msg").getD []), details := natField v "details" }
    else none
  let md : Hdr := (arrField v "meta").toList.filterMap fun row =>
    match row with
    | .arr cells =>
      match cells.toList.filterMap (fun c => c.getStr?.toOption.bind fromHex) with
      | k :: vs => some (k, vs)
      | [] => none
    | _ => none
  some (err, md)

def tableOf (j : Json) (k : String) : List (Bytes × Json) :=
  match j.getObjVal? k with
  | .ok (.obj kvs) => kvs.toList.filterMap fun (key, v) => (fromHex key).map fun b => (b, v)
  | _ => []

structure Parsed where
  sc : Scenario
  cp : String
  relayed : List Bytes
  json : Json

def parseScenario (j : Json) : Option Parsed := do
  let cfg ← (j.getObjVal? "cfg").toOption
  let protocols := (strList cfg "protocols").filterMap protoOfName
  let codecs := (strList cfg "codecs").map fun x => x.toUTF8.toList
  let compress := (strList cfg "compress").map fun x => x.toUTF8.toList
  let mk (m : String × StreamType × Bool) : MethodConf :=
    { path := ("/verif.v1.Svc/" ++ m.1).toUTF8.toList, streamType := m.2.1, noSideEffects := m.2.2,
      protocols := protocols, codecs := codecs, compressors := compress,
      maxMsg := natField cfg "maxMsg", maxGetURL := natField cfg "maxGetURL" }
  let conf : TConf := { methods := methodTable.map mk, unknownHandler := boolField cfg "unknown" }
  let rq ← (j.getObjVal? "req").toOption
  let rawPath ← hexField rq "path"
  let path ← unescapePath rawPath
  let rawQuery ← hexField rq "query"
  let method ← hexField rq "method"
  let hdrPairs := (arrField rq "headers").toList.filterMap fun row =>
    match row with
    | .arr #[.str k, .str v] => match fromHex k, fromHex v with
      | some k, some v => some (k, v)
      | _, _ => none
    | _ => none
  let headers : Hdr := hdrPairs.foldl (fun acc kv => Hdr.add acc kv.1 kv.2) []
  let req : Req := { method := method, path := path, rawQuery := rawQuery, query := parseQuery rawQuery,
                     protoMajor := natField rq "major", headers := headers, contentLength := intField rq "cl" }
  let chunks := (strList rq "body").filterMap fromHex
  let src : Source := { chunks := chunks, ending := if strField rq "bodyEnd" == "unexpected" then .unexpected else if strField rq "bodyEnd" == "eofdata" then .eofWithData else .eof }
  let script := (arrField j "script").toList.filterMap fun op =>
    match op with
    | .arr cells =>
      match cells.toList.filterMap (fun c => c.getStr?.toOption) with
      | ["readn", k, b] => some (BOp.readn k.toNat! b.toNat!)
      | ["readfix", k, b] => some (BOp.readfix k.toNat! b.toNat!)
      | ["readall", b] => some (BOp.readall b.toNat!)
      | ["sethdr", k, v] => match fromHex k, fromHex v with
        | some k, some v => some (BOp.sethdr k v)
        | _, _ => none
      | ["addhdr", k, v] => match fromHex k, fromHex v with
        | some k, some v => some (BOp.addhdr k v)
        | _, _ => none
      | ["status", c] => some (BOp.status c.toNat!)
      | ["write", h] => (fromHex h).map BOp.write
      | ["flush"] => some BOp.flush
      | ["close"] => some BOp.close
      | _ => none
    | _ => none
  let jsonEnd := tableOf j "jsonEnd"
  let jsonErr := tableOf j "jsonErr"
  let statusBin := tableOf j "statusBin"
  let tables : Tables := {
    jsonEnd := fun b => (jsonEnd.find? (fun e => e.1 == b)).bind fun e => parseEntry e.2
    jsonErr := fun b => (jsonErr.find? (fun e => e.1 == b)).bind fun e => (parseEntry e.2).bind (·.1)
    statusBin := fun b => (statusBin.find? (fun e => e.1 == b)).bind fun e => (parseEntry e.2).bind (·.1)
  }
  pure { sc := { conf := conf, req := req, src := src, script := script, tables := tables },
         cp := strField j "cp", relayed := (strList j "relayed").filterMap fromHex, json := j }

/-! ### canonical rendering -/

def insertSorted (x : Bytes) : List Bytes → List Bytes
  | [] => [x]
  | y :: ys => if compareOfLessAndEq x y != .gt then x :: y :: ys else y :: insertSorted x ys

def sortBytes (l : List Bytes) : List Bytes := l.foldr insertSorted []

def insertSortedKV (x : Bytes × List Bytes) : Hdr → Hdr
  | [] => [x]
  | y :: ys => if compareOfLessAndEq x.1 y.1 != .gt then x :: y :: ys else y :: insertSortedKV x ys

/-- Every maximal run of non-ASCII bytes becomes one `?` (JSON transport replaces invalid UTF-8 by
    U+FFFD, so such bytes are not comparable one to one). -/
def asciiFoldAux (inRun : Bool) : Bytes → Bytes
  | [] => []
  | c :: rest => if c ≥ 0x80 then (if inRun then asciiFoldAux true rest else 0x3F :: asciiFoldAux true rest)
    else c :: asciiFoldAux false rest

def asciiFold (b : Bytes) : Bytes := asciiFoldAux false b

def renderHdr (h : Hdr) : String :=
  let h : Hdr := h.map fun (k, vs) => (asciiFold k, vs.map asciiFold)
  let h := h.foldr insertSortedKV []
  if h.isEmpty then "-" else
  ";".intercalate (h.map fun (k, vs) =>
    let vs := if k == s "Trailer" then sortBytes vs else vs
    toHex k ++ "=" ++ ",".intercalate (vs.map toHex))

def isStatusKey (k : Bytes) : Bool :=
  k == s "Grpc-Status" || k == s "Grpc-Message" || k == s "Grpc-Status-Details-Bin"

def dropStatusKeys (h : Hdr) : Hdr := h.filter fun e => !isStatusKey e.1

def renderMsg (relayed : List Bytes) : Msg → String
  | .gen => "gen"
  | .text m => if relayed.contains m then toHex m else "gen"

def endToken (relayed : List Bytes) (place : String) (e : Option RpcErr) : String :=
  match e with
  | none => s!"{place}:0:-:0"
  | some err =>
    let m := match err.msg with
      | .text [] => if err.code == 0 then "-" else renderMsg relayed err.msg
      | m => renderMsg relayed m
    s!"{place}:{err.code}:{m}:{err.details}"

/-- Concrete `Grpc-Status`/`Grpc-Message` keys in a header map (pass-through responses). -/
def concreteGrpcEnd (tb : Tables) (relayed : List Bytes) (place : String) (h : Hdr) : Option String :=
  let st := h.get (s "Grpc-Status")
  if st.isEmpty then none else
  match parseUint32 st with
  | none => some "MALFORMED-STATUS"
  | some code =>
    let enc := h.get (s "Grpc-Message")
    match grpcPercentDecode enc with
    | none => some "MALFORMED-MESSAGE"
    | some msg =>
      if !enc.all (fun c => 0x20 ≤ c && c ≤ 0x7E) then some "UNPRINTABLE-MESSAGE"
      else
        let bin := h.get (s "Grpc-Status-Details-Bin")
        let m := if code != 0 || !msg.isEmpty then renderMsg relayed (.text msg) else "-"
        if bin.isEmpty then some s!"{place}:{code}:{m}:0"
        else match tb.statusBin bin with
          | none => some "MALFORMED-DETAILS"
          | some e => if e.code != code || e.msg != .text msg then some "INCONSISTENT-DETAILS"
            else some s!"{place}:{code}:{m}:{e.details}"

def badTrailerNames : List Bytes :=
  ["Authorization", "Cache-Control", "Connection", "Content-Encoding", "Content-Length", "Content-Range",
   "Content-Type", "Expect", "Host", "Keep-Alive", "Max-Forwards", "Pragma", "Proxy-Authenticate",
   "Proxy-Authorization", "Proxy-Connection", "Range", "Realm", "Te", "Trailer", "Transfer-Encoding",
   "Www-Authenticate"].map s

/-- `httptest.ResponseRecorder.Result().Trailer`. -/
def recorderTrailers (snap final : Hdr) : Hdr :=
  let declared := (snap.values (s "Trailer")).flatMap fun v => (splitOn 0x2C v).map fun k => canonKey (trimSpace k)
  let declared := declared.filter fun k => !(hasPrefix (s "If-") k || badTrailerNames.contains k)
  let t1 : Hdr := declared.foldl (fun acc k =>
    match final.find? (fun e => e.1 == k) with
    | some e => Hdr.setRaw acc k e.2
    | none => acc) []
  final.foldl (fun acc e =>
    if hasPrefix trailerPrefix e.1 then Hdr.addAll acc (e.1.drop trailerPrefix.length) e.2 else acc) t1

inductive FrameBody where
  | raw (b : Bytes)
  | tok (e : RespEnd)

/-- Split the response body into frames; `none` = the raw parts are not a whole number of frames. -/
def splitFramesFuel : Nat → Bytes → Option (List (UInt8 × FrameBody))
  | 0, _ => none
  | _, [] => some []
  | fuel + 1, f :: a :: b :: c :: d :: rest =>
    let n := fromBe32 a b c d
    if rest.length < n then none
    else (splitFramesFuel fuel (rest.drop n)).map fun fs => (f, .raw (rest.take n)) :: fs
  | _, _ => none

def framesOfItems : List Item → Bytes → Option (List (UInt8 × FrameBody))
  | [], pending => splitFramesFuel (pending.length + 1) pending
  | .raw b :: rest, pending => framesOfItems rest (pending ++ b)
  | .endFrame fl e :: rest, pending =>
    match splitFramesFuel (pending.length + 1) pending, framesOfItems rest [] with
    | some a, some b => some (a ++ (fl, .tok e) :: b)
    | _, _ => none
  | .errBody _ :: _, _ => none

def renderFrames (fs : List (UInt8 × Bytes)) : String :=
  if fs.isEmpty then "-" else ",".intercalate (fs.map fun (f, p) => s!"F{f.toNat}:{toHex p}")

def rawOfItems (items : List Item) : Option Bytes :=
  items.foldl (fun acc i => match acc, i with
    | some a, .raw b => some (a ++ b)
    | _, _ => none) (some [])

structure ClientCanon where
  ch : Hdr
  cb : String
  «end» : String
  ct : Hdr

def canonClient (tb : Tables) (cp : String) (relayed : List Bytes) (k : Sink) : ClientCanon :=
  let hdr := k.snap
  let final := k.hdr
  let trailer := recorderTrailers k.snap final
  let bodyLen : Option Nat := (rawOfItems k.items).map List.length
  let textPlain := hdr.get (s "Content-Type") == s "text/plain; charset=utf-8" &&
    hdr.get (s "X-Content-Type-Options") == s "nosniff"
  let hdrMarkSet := k.hdrEndSet && k.status.isSome   -- status written into the header map before the head
  let base : ClientCanon :=
    if textPlain then { ch := hdr, cb := "gen", «end» := "http", ct := trailer }
    else match cp with
    | "grpc" =>
      let frames := framesOfItems k.items []
      let cb := match frames with
        | none => "MALFORMED"
        | some fs =>
          if fs.any (fun f => f.1 > 1) then "BADFLAGS"
          else renderFrames (fs.filterMap fun f => match f.2 with | .raw b => some (f.1, b) | .tok _ => none)
      let hdrTok : Option String :=
        if hdrMarkSet then some (endToken relayed "hdr" k.hdrEnd) else concreteGrpcEnd tb relayed "hdr" hdr
      match hdrTok with
      | some tok =>
        let tconc := concreteGrpcEnd tb relayed "trailer" trailer
        let both : Bool := match tconc with
          | some _ => (trailer.filter (fun e => isStatusKey e.1)).any fun e => hdr.values e.1 != e.2
          | none => false
        let tok := if both then "BOTH-HEADERS-AND-TRAILERS" else tok
        let tok := if bodyLen != some 0 then "TRAILERS-ONLY-WITH-BODY" else tok
        { ch := dropStatusKeys hdr, cb := cb, «end» := tok, ct := dropStatusKeys trailer }
      | none =>
        let ttok : Option String :=
          if k.trailerEndSet then some (endToken relayed "trailer" k.trailerEnd) else concreteGrpcEnd tb relayed "trailer" trailer
        match ttok with
        | some tok => { ch := hdr, cb := cb, «end» := tok, ct := dropStatusKeys trailer }
        | none => { ch := hdr, cb := cb, «end» := "none", ct := trailer }
    | "grpcweb" =>
      let hdrTok : Option String :=
        if hdrMarkSet then some (endToken relayed "hdr" k.hdrEnd) else concreteGrpcEnd tb relayed "hdr" hdr
      let (ch, end0) := match hdrTok with
        | some tok => (dropStatusKeys hdr, if bodyLen != some 0 then "TRAILERS-ONLY-WITH-BODY" else tok)
        | none => (hdr, "none")
      match framesOfItems k.items [] with
      | none => { ch := ch, cb := "MALFORMED", «end» := end0, ct := trailer }
      | some fs =>
        let n := fs.length
        let idx := fs.zipIdx
        let dataFrames := fs.filter fun f => f.1 &&& 0x80 == 0
        let cb := if dataFrames.any (fun f => f.1 > 1) then "BADFLAGS"
          else renderFrames (dataFrames.filterMap fun f => match f.2 with | .raw b => some (f.1, b) | .tok _ => none)
        -- trailer frames
        let tfs := idx.filter fun f => f.1.1 &&& 0x80 != 0
        let res : String × Hdr := tfs.foldl (fun (acc : String × Hdr) f =>
          let (endS, tr) := acc
          if f.2 != n - 1 || endS != "none" then ("MISPLACED-TRAILER-FRAME", tr)
          else match f.1.2 with
            | .tok e => (endToken relayed "frame" e.err,
                (e.trailers.filter (fun t => !t.1.isEmpty && t.1.all isTokenByte)).foldl
                  (fun acc t => Hdr.addAll acc t.1 (t.2.map fun v => trimSpace (v.map fun c => if c == 0x0A || c == 0x0D then 0x20 else c))) [])
            | .raw payload =>
              match decodeEndFromMessage tb .grpcWeb payload with
              | none => ("MALFORMED-TRAILER-LINE", tr)
              | some _ =>
                -- re-parse concretely to render the status
                let lines := splitCRLF payload
                let th : Hdr := lines.foldl (fun h l => if l.isEmpty || !l.contains 0x3A then h else
                  Hdr.add h (l.takeWhile (· != 0x3A)) (trimSpace ((l.dropWhile (· != 0x3A)).drop 1))) []
                match concreteGrpcEnd tb relayed "frame" th with
                | some tok => (tok, dropStatusKeys th)
                | none => ("TRAILER-FRAME-WITHOUT-STATUS", dropStatusKeys th)) (end0, trailer)
        { ch := ch, cb := cb, «end» := res.1, ct := res.2 }
    | "connect-stream" =>
      match framesOfItems k.items [] with
      | none => { ch := hdr, cb := "MALFORMED", «end» := "none", ct := trailer }
      | some fs =>
        let n := fs.length
        let idx := fs.zipIdx
        let dataFrames := fs.filter fun f => f.1 &&& 2 == 0
        let cb := if dataFrames.any (fun f => f.1 > 1) then "BADFLAGS"
          else renderFrames (dataFrames.filterMap fun f => match f.2 with | .raw b => some (f.1, b) | .tok _ => none)
        let efs := idx.filter fun f => f.1.1 &&& 2 != 0
        let res : String × Hdr := efs.foldl (fun (acc : String × Hdr) f =>
          let (_, tr) := acc
          if f.2 != n - 1 then ("MISPLACED-END-STREAM", tr)
          else match f.1.2 with
            | .tok e => (endToken relayed "frame" e.err, e.trailers)
            | .raw payload =>
              match tb.jsonEnd payload with
              | none => ("MALFORMED-END-STREAM", tr)
              | some (err, md) => (endToken relayed "frame" err, md)) ("none", trailer)
        { ch := hdr, cb := cb, «end» := res.1, ct := res.2 }
    | "connect-unary" =>
      let pre := s "Trailer-"
      let ct : Hdr := (hdr.filter (fun e => hasPrefix pre e.1)).map fun e => (e.1.drop pre.length, e.2)
      let ch := hdr.filter fun e => !hasPrefix pre e.1
      if hdr.get (s "Content-Type") != s "application/json" then
        match rawOfItems k.items with
        | some b => { ch := ch, cb := "B:" ++ toHex b, «end» := (if k.status == some 200 then "body:0:-:0" else "none"), ct := ct }
        | none => { ch := ch, cb := "MIXED", «end» := "none", ct := ct }
      else
        match k.items with
        | [.errBody e] => { ch := ch, cb := "-", «end» := endToken relayed "body" (some e), ct := ct }
        | items =>
          match rawOfItems items with
          | some b =>
            match tb.jsonErr b with
            | some e => { ch := ch, cb := "-", «end» := endToken relayed "body" (some e), ct := ct }
            | none => { ch := ch, cb := "MALFORMED", «end» := "none", ct := ct }
          | none => { ch := ch, cb := "MIXED", «end» := "none", ct := ct }
    | _ =>
      match rawOfItems k.items with
      | some b => { ch := hdr, cb := "B:" ++ toHex b, «end» := "none", ct := trailer }
      | none => { ch := hdr, cb := "MIXED", «end» := "none", ct := trailer }
  -- a Content-Length header must match the body
  let cl := base.ch.get (s "Content-Length")
  let cb := if cl.isEmpty then base.cb else
    -- net/http drops a Content-Length that is not a non-negative number; a valid one must match
    match (if cl.all isDigitByte then parseNat cl else none) with
    | none => base.cb
    | some m => if m ≥ 9223372036854775808 then base.cb
      else if bodyLen == some m then base.cb else "CONTENT-LENGTH-MISMATCH:" ++ base.cb
  { base with cb := cb, ch := base.ch.filter fun e => e.1 != s "Content-Length" }

def renderErr : Option Err → String
  | none => "open"
  | some .eof => "eof"
  | some _ => "err"

/-- Byte offset of the position after the first `n` items; `E` = the end of the body (the byte
    length of end frames / error bodies generated by vanguard is not known to the model). -/
def itemOffsets (items : List Item) : Array (Option Nat) :=
  (items.foldl (fun (acc : Array (Option Nat) × Option Nat) i =>
    let next : Option Nat := match acc.2, i with
      | some a, .raw b => some (a + b.length)
      | _, _ => none
    (acc.1.push next, next)) (#[some 0], some 0)).1

def itemPos (offsets : Array (Option Nat)) (nItems : Nat) : Option Nat → String
  | none => "-"
  | some n =>
    if n ≥ nItems then "E" else
    match offsets[n]? with
    | some (some k) => toString k
    | _ => "?"

def renderObs (p : Parsed) (o : Obs) : String :=
  let b := o.backend
  let backendPart : List String :=
    match o.dispatch with
    | .none => ["disp=none"]
    | d =>
      [s!"disp={if d == .svc then "svc" else "unknown"}", s!"bm={toHex b.method}", s!"bp={toHex b.path}",
       s!"bq={toHex b.rawQuery}", s!"bv={b.protoMajor}", s!"bcl={b.contentLength}", s!"bh={renderHdr b.headers}",
       s!"br={toHex b.read}", s!"bre={renderErr b.readEnd}",
       s!"bw={if b.writes.isEmpty then "-" else ",".intercalate (b.writes.map fun f => if f then "err" else "ok")}",
       s!"rp={if b.readProg.isEmpty then "-" else ",".intercalate (b.readProg.map fun x => s!"{x.1}:{x.2}")}",
       (let offs := itemOffsets o.sink.items
        let n := o.sink.items.length
        s!"wp={if b.writeProg.isEmpty then "-" else ",".intercalate (b.writeProg.map fun x => itemPos offs n (some x.1) ++ ":" ++ itemPos offs n x.2)}"),
       "ctx=1"]
  let k := o.sink
  let k := if k.status.isNone then { k with status := some 200, snap := k.hdr } else k
  let c := canonClient p.sc.tables p.cp p.relayed k
  let clientPart := [s!"cs={k.status.getD 200}", s!"ch={renderHdr c.ch}", s!"cb={c.cb}", s!"end={c.end}",
    s!"ct={renderHdr c.ct}", s!"heads={k.heads}", s!"panic={if o.panic then 1 else 0}"]
  " ".intercalate (backendPart ++ clientPart)

def runE2E (hexJson : String) : String :=
  match fromHex hexJson with
  | none => "bad-arg"
  | some bytes =>
    match Json.parse (bytesToString bytes) with
    | .error _ => "bad-arg"
    | .ok j =>
      match parseScenario j with
      | none => "bad-url"
      | some p => renderObs p (serve fakeWorld p.sc)

end Vanguard.Driver

namespace Vanguard.Driver
open Vanguard Lean

/-! ### oracles on end-to-end observations (evaluated on the implementation's rendered result) -/

def parseFields (toks : List String) : List (String × String) :=
  toks.filterMap fun t =>
    match t.splitOn "=" with
    | k :: rest => some (k, "=".intercalate rest)
    | [] => none

def fieldOf (fs : List (String × String)) (k : String) : String :=
  match fs.find? (fun e => e.1 == k) with
  | some e => e.2
  | none => ""

def parseHdrField (v : String) : Hdr :=
  if v == "-" || v == "" then [] else
  (v.splitOn ";").filterMap fun kv =>
    match kv.splitOn "=" with
    | [k, vs] => match fromHex k with
      | some kb => some (kb, (vs.splitOn ",").filterMap fromHex)
      | none => none
    | _ => none

/-- A well-formed end token `place:code:msg:details` with one of the allowed places. -/
def endTokenOk (tok : String) (places : List String) : Option Nat :=
  match tok.splitOn ":" with
  | [place, code, _, _] => if places.contains place then code.toNat? else none
  | _ => none

def okBody (cb : String) : Bool :=
  !(cb.startsWith "MALFORMED" || cb.startsWith "BADFLAGS" || cb.startsWith "MIXED" || cb.startsWith "CONTENT-LENGTH-MISMATCH"
    || cb.startsWith "BAD-CODE")

/-- What the model says about the request: rejected before validation finished, pass-through /
    unknown handler (forwarded untouched), or transcoded. -/
inductive Branch where
  | rejected | forwarded | transcoded (o : Op)

def branchOf (p : Parsed) : Branch :=
  match validate fakeWorld p.sc.conf p.sc.req with
  | .error .notFound => if p.sc.conf.unknownHandler then .forwarded else .rejected
  | .error _ => .rejected
  | .ok o => if o.passThrough then .forwarded else .transcoded o

/-- C11: no panic, at most one response head, at most one dispatch. -/
def oracleC11 (p : Parsed) (fs : List (String × String)) : Option String :=
  let forwarded := match branchOf p with
    | .forwarded => true
    | _ => false
  if fieldOf fs "panic" != "0" then some "ServeHTTP panicked"
  -- (when the request is forwarded untouched the handler owns the client's writer: what it calls there is its own business)
  else if !forwarded && (fieldOf fs "heads").toNat?.getD 99 > 1 then some "more than one response head"
  else if fieldOf fs "disp" == "MULTIPLE" then some "handler invoked more than once"
  else none

/-- C18: at most one dispatch; none when the request is rejected during validation; the handler's
    context is cancelled by the time ServeHTTP returns. -/
def oracleC18 (p : Parsed) (fs : List (String × String)) : Option String :=
  let disp := fieldOf fs "disp"
  if disp == "MULTIPLE" then some "handler invoked more than once" else
  match branchOf p with
  | .rejected => if disp != "none" then some "a request that validation rejects was dispatched" else none
  | _ => if disp != "none" && fieldOf fs "ctx" != "1" then some "handler context not cancelled after return" else none

/-- C03 for a transcoded RPC: the client's response is valid in the client's own protocol and has
    exactly one terminal disposition in the protocol's place. -/
def oracleC03 (p : Parsed) (fs : List (String × String)) (clean : Bool := false) (respValues : Option (List Bytes) := none) : Option String :=
  match branchOf p with
  | .transcoded o =>
    let cb := fieldOf fs "cb"
    let endS := fieldOf fs "end"
    let cs := (fieldOf fs "cs").toNat?.getD 0
    let ch := parseHdrField (fieldOf fs "ch")
    let ct := ch.get (s "Content-Type")
    if !okBody cb then
      -- known class: on the re-framing path a response message is forwarded while it is still being
      -- written; when the backend stops inside a message, a client whose end travels in the body
      -- (gRPC-Web, Connect streaming) receives the end frame inside the cut message
      let writes := p.sc.script.foldl (fun acc op => match op with | .write b => acc ++ b | _ => acc) ([] : Bytes)
      let declaredCL := p.sc.script.foldl (fun (acc : Option Nat) op => match op with
        | .sethdr k v => if canonKey k == s "Content-Length" then (parseNat v) else acc
        | _ => acc) none
      let cut := match o.serverEnveloper with
        | some _ => (splitFramesFuel (writes.length + 1) writes).isNone
        | none => match declaredCL with
          | some n => n != writes.length
          | none => false
      let tag := if o.ccodec == o.scodec && (o.cform == .grpcWeb || o.cform == .connectStream) && cut
        then " [reframe-truncated-response]" else ""
      -- a gRPC client is told in the trailers: a cut last message followed by an error status is the
      -- only thing that can be done once bytes of the message were forwarded
      let grpcCutWithError := o.cform == .grpc && o.ccodec == o.scodec && cut &&
        (match (fieldOf fs "end").splitOn ":" with
          | ["trailer", c, _, _] => c != "0"
          | _ => false)
      if grpcCutWithError then none else
      some ("malformed client body: " ++ cb ++ tag) else
    let places := match o.cform with
      | .grpc => ["hdr", "trailer"]
      | .grpcWeb => ["hdr", "frame"]
      | .connectStream => ["frame"]
      | _ => ["body"]
    match endTokenOk endS places with
    | none => some ("no single well-formed terminal disposition in the protocol's place: " ++ endS)
    | some code =>
      let isUnary := o.cform == .connectPost || o.cform == .connectGet
      let wantStatus := if isUnary then Spec.httpOfCode code else 200
      if cs != wantStatus then some s!"HTTP status {cs} is not what the client's protocol prescribes ({wantStatus})" else
      let wantCT : Bytes := match o.cform with
        | .grpc => s "application/grpc+" ++ o.ccodec
        | .grpcWeb => s "application/grpc-web+" ++ o.ccodec
        | .connectStream => s "application/connect+" ++ o.ccodec
        | _ => if code == 0 then s "application/" ++ o.ccodec else s "application/json"
      if ct != wantCT then some ("content-type is not the client protocol's: " ++ toHex ct) else
      if endS.startsWith "hdr:" && cb != "-" then some "message data next to a trailers-only end" else
      -- a gRPC response whose end is in the head (trailers-only) must not announce or send the status a second
      -- time as HTTP trailers: a client that reads the trailers gets a status without the details of the head
      let ctr := parseHdrField (fieldOf fs "ct")
      let declaresStatus := (ch.values (s "Trailer")).any fun v =>
        (splitOn 0x2C v).any fun k => canonKey (trimSpace k) == s "Grpc-Status" || canonKey (trimSpace k) == s "Grpc-Message"
      if o.cform == .grpc && endS.startsWith "hdr:" && (declaresStatus || ctr.has (s "Grpc-Status") || ctr.has (s "Grpc-Message")) then
        some "the gRPC status is in the response head and announced or sent again as HTTP trailers (without the details of the head)" else
      -- with a well-behaved backend: a frame flagged compressed must inflate under the compression the response declares
      let encKey : Bytes := match o.cform with
        | .grpc | .grpcWeb => s "Grpc-Encoding"
        | .connectStream => s "Connect-Content-Encoding"
        | _ => s "Content-Encoding"
      let enc := ch.get encKey
      let declared : Option Bytes := if enc.isEmpty || enc == s "identity" then none else some enc
      let lying : Bool := match declared with
        | some z =>
          clean && (cb != "-") && (cb.splitOn ",").any fun t => match t.splitOn ":" with
            | ["F1", h] => match fromHex h with
              | some b => (fakeWorld.decompress z b).isNone
              | none => false
            | _ => false
        | none => false
      if lying then some "a response frame is flagged compressed but its bytes are not compressed" else
      let frames : List (Nat × Bytes) := if cb == "-" then [] else (cb.splitOn ",").filterMap fun t => match t.splitOn ":" with
        | ["F0", h] => (fromHex h).map fun b => (0, b)
        | ["F0"] => some (0, [])
        | ["F1", h] => (fromHex h).map fun b => (1, b)
        | ["F1"] => some (1, [])
        | _ => none
      if clean && declared.isNone && frames.any (fun f => f.1 == 1) then some "a response frame is flagged compressed although the response declares no compression" else
      -- with a well-behaved backend and known response values: the flag of every frame says what its bytes are
      match respValues with
      | some vs =>
        if code != 0 || vs.length != frames.length then none else
        let bad := (frames.zip vs).any fun (f, v) =>
          let want := fakeWorld.encode o.ccodec v
          if f.1 == 0 then f.2 != want
          else match declared with
            | some z => (fakeWorld.decompress z f.2) != some want
            | none => true
        if bad then some "the compressed flag of a response frame does not say what its bytes are (or the message is not the backend's)" else none
      | none => none
  | _ => none

/-- C13: when no conversion applies (or no endpoint matches and an unknown-endpoint handler
    exists) the whole observation is that of untouched forwarding. -/
def oracleC13 (p : Parsed) (res : List String) : Option String :=
  let expect (d : Dispatch) (o : Option Op) : Option String :=
    let ob := forwardObs p.sc d
    let ob := match o with
      | some o => if o.sform == .grpc then { ob with backend := { ob.backend with protoMajor := 2 } } else ob
      | none => ob
    let want := parseFields ((renderObs p ob).splitOn " ")
    let got := parseFields res
    let bad := want.filter fun (k, v) => fieldOf got k != v
    match bad with
    | [] => none
    | (k, _) :: _ => some s!"forwarded request/response was altered (field {k})"
  match validate fakeWorld p.sc.conf p.sc.req with
  | .error .notFound => if p.sc.conf.unknownHandler then expect .unknown none else none
  | .ok o => if o.passThrough then expect .svc (some o) else none
  | _ => none

end Vanguard.Driver

namespace Vanguard.Driver
open Vanguard Lean

/-- Ground truth of a clean scenario (harness/e2e.go `Expectation`). -/
structure Expect where
  reqValues : List Bytes
  respValues : List Bytes
  errCode : Nat
  errMsg : Bytes
  details : Nat
  trailers : List (Bytes × Bytes)
  respHeaders : List (Bytes × Bytes)
  sizesSafe : Bool
  readsAll : Bool
  trailersInHeaders : Bool

def pairList (j : Json) (k : String) : List (Bytes × Bytes) :=
  (arrField j k).toList.filterMap fun row =>
    match row with
    | .arr #[.str a, .str b] => match fromHex a, fromHex b with
      | some a, some b => some (a, b)
      | _, _ => none
    | _ => none

def parseExpect (j : Json) : Option Expect :=
  match j.getObjVal? "expect" with
  | .ok (.obj kvs) =>
    let e := Json.obj kvs
    some { reqValues := (strList e "reqValues").filterMap fromHex, respValues := (strList e "respValues").filterMap fromHex,
           errCode := natField e "errCode", errMsg := (hexField e "errMsg").getD [], details := natField e "details",
           trailers := pairList e "trailers", respHeaders := pairList e "respHeaders",
           sizesSafe := boolField e "sizesSafe", readsAll := boolField e "readsAll",
           trailersInHeaders := boolField e "trailersInHeaders" }
  | _ => none

/-- Decode one transported payload back to its value. -/
def decodePayload (codec : Bytes) (comp : Option Bytes) (compressed : Bool) (p : Bytes) : Option Bytes :=
  let d? : Option Bytes :=
    if compressed then
      match comp with
      | some z => if p.isEmpty then some p else fakeWorld.decompress z p
      | none => none
    else some p
  d?.bind (fakeWorld.decode codec)

/-- The messages in an enveloped byte stream (`none` = not a whole number of well-formed frames). -/
def messagesOfStream (codec : Bytes) (comp : Option Bytes) (b : Bytes) : Option (List Bytes) :=
  (splitFramesFuel (b.length + 1) b).bind fun fs =>
    fs.mapM fun f => match f.2 with
      | .raw p => if f.1 > 1 then none else decodePayload codec comp (f.1 == 1) p
      | .tok _ => none

/-- Messages the client received, from the canonical `cb` field. -/
def clientMessages (codec : Bytes) (comp : Option Bytes) (cb : String) : Option (List Bytes) :=
  if cb == "-" then some []
  else if cb.startsWith "B:" then
    ((fromHex (cb.drop 2).toString).bind fun p => decodePayload codec comp comp.isSome p).map ([·])
  else
    (cb.splitOn ",").mapM fun item =>
      match item.splitOn ":" with
      | [f, h] => (fromHex h).bind fun p =>
          if f == "F0" then decodePayload codec comp false p
          else if f == "F1" then decodePayload codec comp true p else none
      | _ => none

def nonIdentity (b : Bytes) : Option Bytes := if b.isEmpty || b == identityName then none else some b

/-- C01: in a clean scenario the backend reads exactly the client's messages and a successful
    client outcome carries exactly the backend's messages; with sizes that fit, the RPC is not
    failed by the transcoder. -/
def oracleC01 (p : Parsed) (ex : Expect) (fs : List (String × String)) : Option String :=
  match branchOf p with
  | .transcoded o =>
    if fieldOf fs "disp" != "svc" then
      (if ex.sizesSafe then some "clean request was not dispatched" else none) else
    if fieldOf fs "bm" == toHex sGET then none else      -- Connect GET target: message travels in the URL (C19)
    let br := (fromHex (fieldOf fs "br")).getD []
    let reqOk : Option String :=
      if !(ex.readsAll && fieldOf fs "bre" == "eof") then none else
      let got : Option (List Bytes) :=
        match o.serverEnveloper with
        | some _ => messagesOfStream o.scodec o.sReqComp br
        | none => (decodePayload o.scodec o.sReqComp o.sReqComp.isSome br).map ([·])
      let clientOk := ((fieldOf fs "end").splitOn ":").getD 1 "" == "0"
      match got with
      | none =>
        -- request-side twin of the known class: uncompressed frame to a backend without envelopes
        let body := p.sc.src.chunks.flatten
        let hasPlainFrame := match splitFramesFuel (body.length + 1) body with
          | some frames => frames.any fun f => f.1 == 0
          | none => false
        let tag := if o.serverEnveloper.isNone && o.clientEnveloper.isSome && o.sReqComp.isSome && hasPlainFrame
          then " [uncompressed-frame-to-unenveloped-peer]" else ""
        some ("backend received a request body that does not decode in the negotiated protocol/codec/compression" ++ tag)
      | some vs =>
        if vs == ex.reqValues then none
        else if !clientOk && vs.isPrefixOf ex.reqValues then none   -- the RPC failed visibly; what was handed on is unaltered
        else some "backend received different request messages than the client sent"
    match reqOk with
    | some why => some why
    | none =>
      let endS := fieldOf fs "end"
      let code := match endS.splitOn ":" with
        | [_, c, _, _] => c.toNat?
        | _ => none
      let ch := parseHdrField (fieldOf fs "ch")
      let comp := nonIdentity (match o.cform with
        | .grpc | .grpcWeb => ch.get (s "Grpc-Encoding")
        | .connectStream => ch.get (s "Connect-Content-Encoding")
        | _ => ch.get (s "Content-Encoding"))
      match code with
      | none => none                       -- malformed outcome: C03's business
      | some 0 =>
        if ex.errCode != 0 then some "backend failed the RPC but the client saw success" else
        match clientMessages o.ccodec comp (fieldOf fs "cb") with
        | none =>
          -- known class: a frame with compressed flag 0 inside a compression-declared stream, bound
          -- for a peer without envelopes, is sent raw under Content-Encoding
          let writes := p.sc.script.foldl (fun acc op => match op with | .write b => acc ++ b | _ => acc) ([] : Bytes)
          let hasPlainFrame := match splitFramesFuel (writes.length + 1) writes with
            | some frames => frames.any fun f => f.1 == 0
            | none => false
          let tag := if o.clientEnveloper.isNone && o.serverEnveloper.isSome && comp.isSome && hasPlainFrame
            then " [uncompressed-frame-to-unenveloped-peer]" else ""
          some ("client received response data that does not decode in its codec/compression" ++ tag)
        | some vs => if vs == ex.respValues then none else
          let writes := p.sc.script.foldl (fun acc op => match op with | .write b => acc ++ b | _ => acc) ([] : Bytes)
          let hasPlainFrame := match splitFramesFuel (writes.length + 1) writes with
            | some frames => frames.any fun f => f.1 == 0
            | none => false
          let tag := if o.clientEnveloper.isNone && o.serverEnveloper.isSome && comp.isSome && hasPlainFrame
            then " [uncompressed-frame-to-unenveloped-peer]" else ""
          some ("client received different response messages than the backend sent" ++ tag)
      | some c =>
        if ex.errCode == 0 && ex.sizesSafe then some s!"clean RPC with fitting sizes was failed (code {c})" else none
  | _ => none

/-- C04: a clean backend error reaches the client with the same code, message and details. -/
def oracleC04 (p : Parsed) (ex : Expect) (fs : List (String × String)) : Option String :=
  match branchOf p with
  | .transcoded _ =>
    if ex.errCode == 0 || !ex.sizesSafe || fieldOf fs "disp" != "svc" then none else
    match (fieldOf fs "end").splitOn ":" with
    | [_, c, m, d] =>
      if c.toNat? != some ex.errCode then some s!"error code changed: backend {ex.errCode}, client {c}"
      else if m != toHex ex.errMsg && !(ex.errMsg.isEmpty && m == "-") then some "error message changed"
      else if d.toNat? != some ex.details then some s!"error details lost: backend {ex.details}, client {d}"
      else none
    | _ => none
  | _ => none

/-- C02: what the service handler receives for a transcoded request is a valid request of one of
    the service's protocols, with one of its codecs and compressions; acceptable parts of the client's
    triple are kept; envelopes are legal and consistent with the declared compression. -/
def oracleC02 (p : Parsed) (fs : List (String × String)) (clean : Bool := false) : Option String :=
  match branchOf p with
  | .transcoded o =>
    if fieldOf fs "disp" != "svc" then none else
    let m := o.conf
    let bh := parseHdrField (fieldOf fs "bh")
    let ct := bh.get (s "Content-Type")
    -- which protocol / codec does the request claim?
    let claim : Option (ServerForm × Bytes) :=
      if hasPrefix (s "application/connect+") ct then some (.connectStream, ct.drop 20)
      else if hasPrefix (s "application/grpc-web+") ct then some (.grpcWeb, ct.drop 21)
      else if hasPrefix (s "application/grpc+") ct then some (.grpc, ct.drop 17)
      else if hasPrefix (s "application/") ct then some (.connectUnary, ct.drop 12)
      else none
    match claim with
    | none => some "backend request has no content-type of a target protocol"
    | some (sf, codec) =>
      if !m.protocols.contains sf.proto then some "backend addressed in a protocol the service does not accept"
      else if !m.codecs.contains codec then some "backend addressed with a codec the service does not accept"
      else if m.protocols.contains o.cform.proto && sf.proto != o.cform.proto then some "acceptable client protocol was converted"
      else if m.codecs.contains o.ccodec && codec != o.ccodec then some "acceptable client codec was converted"
      else if (sf == .connectUnary) != (m.streamType == .unary && sf.proto == .connect) then some "Connect unary/stream form does not fit the method"
      else
        let compHdr : Bytes := match sf with
          | .grpc | .grpcWeb => s "Grpc-Encoding"
          | .connectStream => s "Connect-Content-Encoding"
          | _ => s "Content-Encoding"
        let comp := nonIdentity (bh.get compHdr)
        let compBad := match comp with
          | some z => !m.compressors.contains z
          | none => false
        if compBad then some "backend addressed with a compression the service does not accept" else
        let keepBad := match o.cReqComp with
          | some z => m.compressors.contains z && comp != some z
          | none => comp.isSome
        if keepBad then some "acceptable client compression was not kept (or a compression was invented)" else
        -- control headers of other protocols must not contradict
        let foreign : List Bytes := match sf with
          | .grpc | .grpcWeb => [s "Content-Encoding", s "Connect-Content-Encoding"]
          | .connectStream => [s "Content-Encoding", s "Grpc-Encoding"]
          | _ => [s "Grpc-Encoding", s "Connect-Content-Encoding"]
        if foreign.any (fun k => bh.has k) then some "left-over compression header of another protocol contradicts the request" else
        if sf == .grpc && bh.get (s "Te") != s "trailers" then some "gRPC request without Te: trailers" else
        if sf == .grpc && fieldOf fs "bv" != "2" then some "gRPC request not presented as HTTP/2" else
        if sf == .connectUnary && bh.get (s "Connect-Protocol-Version") != [0x31] then some "Connect unary request without protocol version" else
        let bm := fieldOf fs "bm"
        if bm != toHex sPOST && !(sf == .connectUnary && bm == toHex sGET) then some "backend request method is neither POST nor an allowed GET" else
        if fieldOf fs "bp" != toHex m.path then some "backend request path is not the method's path" else
        if bm == toHex sPOST && fieldOf fs "bq" != "-" then some "POST request line carries a query string" else
        -- body: complete reads must be a whole number of legal envelopes
        if fieldOf fs "bre" != "eof" then none else
        -- a body shorter than its declared Content-Length cannot end cleanly under a real HTTP stack
        let bodyLen := (p.sc.src.chunks.map List.length).sum
        if p.sc.req.contentLength ≥ 0 && p.sc.req.contentLength != bodyLen then none else
        match sf.enveloper with
        | none => none
        | some _ =>
          let br := (fromHex (fieldOf fs "br")).getD []
          match splitFramesFuel (br.length + 1) br with
          | none => some "backend read a body that is not a whole number of envelopes, yet it ended cleanly"
          | some frames =>
            if frames.any (fun f => f.1 > 1) then some "illegal envelope flags handed to the backend"
            else if comp.isNone && frames.any (fun f => f.1 == 1) &&
                -- (a client stream that itself flags frames without declaring a compression is forwarded as it is)
                !(o.cReqComp.isNone && o.clientEnveloper.isSome) then some "compressed flag without declared compression"
            else
              -- from a well-behaved client: what is flagged compressed must inflate under the declared compression
              let lying := match comp with
                | some z => clean && frames.any fun f => f.1 == 1 && match f.2 with
                    | .raw b => (fakeWorld.decompress z b).isNone   -- (an empty payload is not compressed data either)
                    | .tok _ => false
                | none => false
              if lying then some "a message is flagged compressed for the backend but its bytes are not compressed" else none
  | _ => none

/-- The request message value the backend was handed (one message), from its body or, for a
    Connect GET request, from its query string. -/
def backendValue (o : Op) (fs : List (String × String)) : Option Bytes :=
  let bh := parseHdrField (fieldOf fs "bh")
  if fieldOf fs "bm" == toHex sGET then
    let q := parseQuery ((fromHex (fieldOf fs "bq")).getD [])
    let b64 := q.get (s "base64")
    let msgStr := q.get (s "message")
    let data? : Option Bytes := if b64 == [0x31] && !msgStr.isEmpty then b64UrlDecodeEither msgStr else some msgStr
    let comp := nonIdentity (q.get (s "compression"))
    data?.bind fun d => decodePayload (q.get (s "encoding")) comp comp.isSome d
  else
    let br := (fromHex (fieldOf fs "br")).getD []
    let ct := bh.get (s "Content-Type")
    if hasPrefix (s "application/grpc") ct || hasPrefix (s "application/connect+") ct then
      let comp := nonIdentity (if hasPrefix (s "application/connect+") ct then bh.get (s "Connect-Content-Encoding") else bh.get (s "Grpc-Encoding"))
      match messagesOfStream o.scodec comp br with
      | some [v] => some v
      | _ => none
    else
      let comp := nonIdentity (bh.get (s "Content-Encoding"))
      decodePayload o.scodec comp comp.isSome br

/-- C19 on one request: GET acceptance (405 + Allow otherwise) and the GET/POST decision toward a
    Connect backend. -/
def oracleC19 (p : Parsed) (fs : List (String × String)) : Option String :=
  let r := p.sc.req
  let ch := parseHdrField (fieldOf fs "ch")
  match classifyRequest r with
  | some c =>
    match p.sc.conf.methods.find? (fun m => m.path == r.path) with
    | none => none
    | some m =>
      if c != .rest && r.method != sPOST then
        let ok := c == .connectGet && m.noSideEffects && r.method == sGET
        if !ok then
          let allow := if c == .connectGet && m.noSideEffects then s "GET,POST" else sPOST
          if fieldOf fs "cs" != "405" then some "non-POST request that is not an allowed GET was not answered 405"
          else if ch.get (s "Allow") != allow then some "405 without the right Allow header"
          else if fieldOf fs "disp" != "none" then some "rejected GET reached a handler" else none
        else if fieldOf fs "cs" == "405" then some "allowed Connect GET was answered 405" else
        -- decision toward the backend
        match branchOf p with
        | .transcoded o =>
          if fieldOf fs "disp" != "svc" then none else
          let pl := o.plan fakeWorld
          let issuedGet := fieldOf fs "bm" == toHex sGET
          if !pl.useGet then (if issuedGet then some "GET issued although the conditions for GET do not hold" else none)
          else
            -- the client's message, as the model decodes it from the query string
            match connectGetMessage fakeWorld o [] with
            | .error _ => none
            | .ok v =>
              let want := (connectGetQuery fakeWorld o v).isSome
              if issuedGet != want then some (if want then "POST issued although the GET URL fits" else "GET issued although the URL exceeds the limit")
              else if issuedGet then
                let bp := (fromHex (fieldOf fs "bp")).getD []
                let bq := (fromHex (fieldOf fs "bq")).getD []
                if bp.length + 1 + bq.length > o.conf.maxGetURL then some "issued GET URL is longer than the configured maximum"
                else if backendValue o fs != some v then some "message in the issued GET URL differs from the client's"
                else none
              else none
        | _ => none
      else none
  | none => none

/-- Frames of a byte stream plus whether it is a whole number of frames. -/
def framesAndRest : Nat → Bytes → List (UInt8 × Bytes) × Bool
  | 0, _ => ([], false)
  | _, [] => ([], true)
  | fuel + 1, f :: a :: b :: c :: d :: rest =>
    let n := fromBe32 a b c d
    if rest.length < n then ([], false)
    else let (fs, ok) := framesAndRest fuel (rest.drop n); ((f, rest.take n) :: fs, ok)
  | _, _ => ([], false)

/-- C09: a request or response stream that stops inside an envelope or message, carries illegal
    flags or ends with an unexpected EOF never surfaces as success; the backend is only handed
    messages the client completed. -/
def oracleC09 (p : Parsed) (fs : List (String × String)) : Option String :=
  match branchOf p with
  | .transcoded o =>
    if fieldOf fs "disp" != "svc" then none else
    let readsAll := p.sc.script.any fun op => match op with | .readall _ => true | _ => false
    let endS := fieldOf fs "end"
    let clientOk := match endS.splitOn ":" with
      | [_, c, _, _] => c == "0"
      | _ => false
    -- request side (enveloped clients; the handler must actually consume the request)
    let body := p.sc.src.chunks.flatten
    let reqFault : Option String :=
      match o.clientEnveloper with
      | none => none
      | some ce =>
        if !readsAll then none else
        let (frames, whole) := framesAndRest (body.length + 1) body
        if !whole then some "request stream is cut inside an envelope or message"
        else if p.sc.src.ending == .unexpected then some "request stream ends with an unexpected EOF"
        else if frames.any (fun f => (ce.decodeFlags f.1).isNone || (ce.decodeFlags f.1 == some (true, false)) || (ce.decodeFlags f.1 == some (true, true)))
          then some "request envelope carries illegal flags"
        else none
    match reqFault with
    | some why =>
      -- the fault must be visible: to the client (non-OK outcome) or at least to the handler (a read
      -- error, on which a conforming handler fails the RPC) - never a clean end plus success
      if clientOk && fieldOf fs "bre" == "eof" then some ("handler saw a clean end and client saw success although the " ++ why) else
      -- what the backend got as complete messages must be a prefix of what the client completed
      (match o.serverEnveloper with
       | some _ =>
         let br := (fromHex (fieldOf fs "br")).getD []
         let (got, _) := framesAndRest (br.length + 1) br
         let (sent, _) := framesAndRest (body.length + 1) body
         if got.length > sent.length then some "backend was handed more complete messages than the client completed" else none
       | none => if fieldOf fs "bre" == "eof" && !body.isEmpty && (framesAndRest (body.length + 1) body).1.length == 0
           then some "backend body ended cleanly although the client's only message was cut" else none)
    | none =>
      -- response side
      let writes := p.sc.script.foldl (fun acc op => match op with | .write b => acc ++ b | _ => acc) ([] : Bytes)
      let statusOk := p.sc.script.all fun op => match op with | .status c => c == 200 | _ => true
      let respFault : Option String :=
        match o.serverEnveloper with
        | some se =>
          let (frames, whole) := framesAndRest (writes.length + 1) writes
          -- bytes the backend writes behind a complete end-of-stream frame are not part of the stream
          let endSeen := frames.any fun f => match se.decodeFlags f.1 with
            | some fl => fl.1
            | none => false
          if !statusOk then none
          else if !whole && !endSeen then some "response stream is cut inside an envelope or message"
          else if frames.any (fun f => (se.decodeFlags f.1).isNone) then some "response envelope carries illegal flags"
          else none
        | none => none
      match respFault with
      | some why => if clientOk then some ("client saw success although the " ++ why) else none
      | none => none
  | _ => none

/-- C10: in a clean scenario (a) nothing is rejected for size when every representation of every
    message fits; (b) a request message whose inflated or re-encoded form exceeds the limit on a
    path that buffers it makes the RPC fail with resource_exhausted and is not handed to the backend. -/
def oracleC10 (p : Parsed) (ex : Expect) (fs : List (String × String)) : Option String :=
  match branchOf p with
  | .transcoded o =>
    if fieldOf fs "disp" != "svc" then none else
    let code := match (fieldOf fs "end").splitOn ":" with
      | [_, c, _, _] => c.toNat?
      | _ => none
    if ex.sizesSafe && code == some 8 && ex.errCode != 8 then some "rejected for size although every representation of every message fits" else
    let L := o.conf.maxMsg
    -- a Connect GET request carries its message in the URL; it is inflated in order to be decoded, under the limit
    let getOver : Bool :=
      if o.cform != .connectGet then false else
      match o.cReqComp with
      | none => false
      | some z =>
        let b64 := o.query.get (s "base64")
        let msgStr := o.query.get (s "message")
        let wire? : Option Bytes :=
          if b64 == [0x31] && !msgStr.isEmpty then b64UrlDecodeEither msgStr
          else if b64.isEmpty || b64 == [0x30] || b64 == [0x31] then some msgStr else none
        match wire? with
        | none => false
        | some wire =>
          if wire.isEmpty then false else
          match fakeWorld.decompress z wire with
          | some d => d.length > L
          | none => false
    -- response side: a response message with an oversized representation on a path that buffers it
    let writes := p.sc.script.foldl (fun acc op => match op with | .write b => acc ++ b | _ => acc) ([] : Bytes)
    let respComp : Option Bytes := p.sc.script.foldl (fun acc op => match op with
      | .sethdr k v => if [s "Grpc-Encoding", s "Connect-Content-Encoding", s "Content-Encoding"].contains (canonKey k) then nonIdentity v else acc
      | _ => acc) none
    let respBuffering := o.ccodec != o.scodec || o.cform.endMustBeInHeaders || (o.serverEnveloper.isNone && o.clientEnveloper.isSome)
    let respFrames : List (UInt8 × Bytes) := match o.serverEnveloper with
      | some _ => let (fr, whole) := framesAndRest (writes.length + 1) writes
                  if whole then fr.filter (fun f => f.1 ≤ 1) else []
      | none => if ex.respValues.isEmpty then [] else [((if respComp.isSome then 1 else 0), writes)]
    let respOversized (f : UInt8 × Bytes) : Bool :=
      let dec : Bytes := if f.1 == 1 then
          (match respComp with
           | some z => if f.2.isEmpty then f.2 else (fakeWorld.decompress z f.2).getD []
           | none => f.2)
        else f.2
      let reenc : Bytes := if o.ccodec == o.scodec then dec else
        (match fakeWorld.decode o.scodec dec with
         | some v => fakeWorld.encode o.ccodec v
         | none => [])
      -- responses are decompressed only to be re-encoded: with the same codec on both sides a compressed message is
      -- forwarded as it is and only its wire size counts
      (f.2.length > L && (o.ccodec != o.scodec || o.cform.endMustBeInHeaders)) ||
        (o.ccodec != o.scodec && (dec.length > L || reenc.length > L))
    let respCheck : Option String :=
      if !respBuffering || ex.errCode != 0 then none else
      match respFrames.findIdx? respOversized with
      | none => none
      | some j =>
        if code == some 0 then some s!"response message {j} has a representation above the limit on a buffering path, yet the client saw success"
        else
          let delivered : Nat := match o.clientEnveloper with
            | some _ => if fieldOf fs "cb" == "-" then 0 else ((fieldOf fs "cb").splitOn ",").length
            | none => if fieldOf fs "cs" == "200" then 1 else 0
          if delivered > j then some s!"oversized response message {j} was delivered to the client" else none
    match respCheck with
    | some why => some why
    | none =>
    if !ex.readsAll then none else
    -- (the message of a GET request is decoded - and inflated - when the handler first reads the body)
    if getOver && code != some 8 then some "a Connect GET message that inflates above the limit was not rejected with resource_exhausted although the handler read the request" else
    let pl := o.plan fakeWorld
    let buffering := !(pl.sameReqCompression && pl.sameReqCodec && !pl.mustDecode)
    match o.clientEnveloper with
    | none =>
      -- a client without envelopes: the whole body is the one message; it is buffered (under the limit)
      -- whenever the target has envelopes or the message has to be converted
      let body := p.sc.src.chunks.flatten
      if !(o.serverEnveloper.isSome || buffering) || p.sc.src.ending == .unexpected || o.cform == .connectGet then none else
      let dec : Bytes := match o.cReqComp with
        | some z => if body.isEmpty then body else (fakeWorld.decompress z body).getD []
        | none => body
      let reenc : Bytes := if o.ccodec == o.scodec then dec else
        (match fakeWorld.decode o.ccodec dec with
         | some v => fakeWorld.encode o.scodec v
         | none => [])
      -- (decompression happens only when the message is converted)
      let over := body.length > L || (buffering && (dec.length > L || reenc.length > L))
      if !over then none
      else if code == some 0 then some "the request message has a representation above the limit on a buffering path, yet the client saw success"
      else if (fieldOf fs "br") != "-" then some "an oversized request message was handed to the backend" else none
    | some _ =>
      if !buffering then none else
      let body := p.sc.src.chunks.flatten
      let (frames, whole) := framesAndRest (body.length + 1) body
      if !whole then none else
      -- index of the first message with an oversized representation (wire, inflated or re-encoded)
      let oversized (f : UInt8 × Bytes) : Bool :=
        let wire := f.2
        let dec : Bytes := if f.1 == 1 then
            (match o.cReqComp with
             | some z => if wire.isEmpty then wire else (fakeWorld.decompress z wire).getD []
             | none => wire)
          else wire
        let reenc : Bytes := if o.ccodec == o.scodec then dec else
          (match fakeWorld.decode o.ccodec dec with
           | some v => fakeWorld.encode o.scodec v
           | none => [])
        wire.length > L || dec.length > L || reenc.length > L
      match frames.findIdx? oversized with
      | none => none
      | some i =>
        if code == some 0 then some s!"request message {i} has a representation above the limit on a buffering path, yet the client saw success"
        else
          let br := (fromHex (fieldOf fs "br")).getD []
          let got : Nat := match o.serverEnveloper with
            | some _ => (framesAndRest (br.length + 1) br).1.length
            | none => if br.isEmpty then 0 else 1
          if got > i then some s!"oversized request message {i} was handed to the backend" else none
  | _ => none

def controlKeys : List Bytes :=
  ["Content-Type", "Content-Length", "Content-Encoding", "Accept-Encoding", "Te", "Trailer", "Grpc-Timeout", "Grpc-Encoding",
   "Grpc-Accept-Encoding", "Grpc-Status", "Grpc-Message", "Grpc-Status-Details-Bin", "Connect-Timeout-Ms",
   "Connect-Content-Encoding", "Connect-Accept-Encoding", "Connect-Protocol-Version"].map s

/-- C05: application request headers reach the backend, application response headers and trailers
    reach the client, and protocol status keys do not leak into application metadata. -/
def oracleC05 (p : Parsed) (ex : Option Expect) (fs : List (String × String)) : Option String :=
  match branchOf p with
  | .transcoded o =>
    if fieldOf fs "disp" != "svc" then none else
    let bh := parseHdrField (fieldOf fs "bh")
    -- the observation renders runs of non-ASCII bytes as '?' (asciiFold): compare in that form
    let lostReq := p.sc.req.headers.find? fun e => !controlKeys.contains e.1 && bh.values (asciiFold e.1) != e.2.map asciiFold
    match lostReq with
    | some e => some ("request header did not reach the backend unchanged: " ++ toHex e.1)
    | none =>
      let ct := parseHdrField (fieldOf fs "ct")
      let ch := parseHdrField (fieldOf fs "ch")
      let leak := (ct ++ (if o.cform == .grpc || o.cform == .grpcWeb then [] else ch)).find? fun e => isStatusKey (canonKey e.1)
      match leak with
      | some e => some ("protocol status key leaked into application metadata: " ++ toHex e.1)
      | none =>
        match ex with
        | none => none
        | some ex =>
          if !ex.sizesSafe then none else
          let missH := ex.respHeaders.find? fun kv => !(ch.values (asciiFold kv.1)).contains (asciiFold kv.2)
          match missH with
          | some kv => some ("response header lost: " ++ toHex kv.1)
          | none =>
            let ctCanon : Hdr := ct.foldl (fun acc e => Hdr.addAll acc e.1 e.2) []
            -- in a trailers-only exchange (on either leg) headers and trailers are one block
            let inHeaders := ex.trailersInHeaders || (fieldOf fs "end").startsWith "hdr:"
            let missT := ex.trailers.find? fun kv =>
              !((ctCanon.values (asciiFold kv.1)).contains (asciiFold kv.2) || (inHeaders && (ch.values (asciiFold kv.1)).contains (asciiFold kv.2)))
            match missT with
            | some kv => some ("trailer lost or misplaced: " ++ toHex kv.1)
            | none => none
  | _ => none

/-- C16: between streaming-capable protocols every completed message is forwarded at once, in both
    directions (progress logs `wp`, `rp` of the observation judged by `Spec.respStepOk` /
    `Spec.reqStepOk`). -/
def oracleC16 (p : Parsed) (ex : Option Expect) (fs : List (String × String)) : Option String :=
  if fieldOf fs "stall" != "" then
    some ("a strictly alternating client would wait for ever: the transcoder asked for a request message the client sends only after a response it has not been given (" ++ fieldOf fs "stall" ++ ")") else
  match branchOf p, ex with
  | .transcoded o, some ex =>
    let streamingClient := p.cp == "grpc" || p.cp == "grpcweb" || p.cp == "connect-stream"
    let srvEndFlag : Option UInt8 := match o.sform with
      | .grpc => some 0 | .grpcWeb => some 0x80 | .connectStream => some 2 | _ => none
    match srvEndFlag with
    | none => none
    | some srvEndFlag =>
    if !streamingClient || !ex.sizesSafe || fieldOf fs "disp" != "svc" || fieldOf fs "panic" != "0" then none else
    let cliEndFlag : UInt8 := if p.cp == "grpcweb" then 0x80 else if p.cp == "connect-stream" then 2 else 0
    -- the client's final body, rebuilt from the canonical frame list
    let cb := fieldOf fs "cb"
    if cb == "MALFORMED" || cb == "BADFLAGS" || cb == "gen" then none else
    let cframes : List (UInt8 × Bytes) := if cb == "-" || cb == "" then [] else
      (cb.splitOn ",").filterMap fun t => match t.splitOn ":" with
        | [f, h] => ((f.drop 1).toNat?).bind fun fl => (fromHex h).map fun b => (UInt8.ofNat fl, b)
        | _ => none
    let clientFrames : List (Nat × UInt8) := (cframes.foldl (fun (acc : Nat × List (Nat × UInt8)) f =>
      (acc.1 + 5 + f.2.length, acc.2 ++ [(acc.1 + 5 + f.2.length, f.1)])) (0, [])).2
    let dataTotal := clientFrames.foldl (fun m f => max m f.1) 0
    let num (v : String) : Option Nat := if v == "-" then some 0 else if v == "E" then some (dataTotal + 1000000) else v.toNat?
    let wp := fieldOf fs "wp"
    let wps : List (Option Nat) := if wp == "-" || wp == "" then [] else
      (wp.splitOn ",").map fun t => match t.splitOn ":" with
        | [_, f] => num f
        | _ => none
    let writes : List Bytes := p.sc.script.filterMap fun op => match op with | .write b => some b | _ => none
    -- cumulative output of the backend after each write
    let cum : List Bytes := (writes.foldl (fun (acc : Bytes × List Bytes) b => (acc.1 ++ b, acc.2 ++ [acc.1 ++ b])) ([], [])).2
    let respBad := (cum.zip wps).any fun (written, fl) => match fl with
      | some fl => !Spec.respStepOk written srvEndFlag clientFrames cliEndFlag fl
      | none => true
    if respBad then some "a response message the backend had completed was not on the wire when its Write returned" else
    -- request direction
    let body := p.sc.src.chunks.flatten
    let cliEnds := (Spec.framesOf body).map (·.1)
    let srvEnds := match fromHex (fieldOf fs "br") with
      | some br => (Spec.framesOf br).map (·.1)
      | none => []
    let rp := fieldOf fs "rp"
    let rps : List (Option (Nat × Nat)) := if rp == "-" || rp == "" then [] else
      (rp.splitOn ",").map fun t => match t.splitOn ":" with
        | [d, q] => match d.toNat?, q.toNat? with
          | some d, some q => some (d, q)
          | _, _ => none
        | _ => none
    -- only meaningful when the client's body is a clean sequence of frames
    if (cliEnds.getLast?.getD 0) != body.length then none else
    let reqBad := rps.any fun e => match e with
      | some (d, q) => !Spec.reqStepOk srvEnds cliEnds body.length d q
      | none => true
    if reqBad then some "handing a request message to the handler took more of the client's body than the messages handed out so far"
    else none
  | _, _ => none

/-- C12 on one transcoded request: a timeout the client supplied (as the model reads it off the client's own
    header) reaches the backend in the target protocol's header, with a value that does not exceed it. -/
def oracleC12 (p : Parsed) (fs : List (String × String)) : Option String :=
  match branchOf p with
  | .transcoded o =>
    if fieldOf fs "disp" != "svc" then none else
    match o.reqMeta.timeout with
    | none => none
    | some d =>
      let bh := parseHdrField (fieldOf fs "bh")
      let got : Option (Option Int) := match o.sform with
        | .grpc | .grpcWeb =>
          let v := bh.get (s "Grpc-Timeout")
          some (match v.getLast?, parseInt64 v.dropLast with
            | some u, some num => if grpcUnit u == 0 || num < 0 then none else some (num * grpcUnit u)
            | _, _ => none)
        | .connectStream | .connectUnary =>
          some (match parseInt64 (bh.get (s "Connect-Timeout-Ms")) with
            | some n => if n < 0 then none else some (n * 1000000)
            | none => none)
        | .rest => none
      match got with
      | none => none
      | some none => some "the client's timeout did not reach the backend (no readable timeout header of the target protocol)"
      | some (some b) => if b > (if d < 0 then 0 else d) then some "the backend was given a longer timeout than the client's" else none
  | _ => none

def specE2E (prop : String) (hexJson : String) (res : List String) : String :=
  match (fromHex hexJson).bind (fun b => (Json.parse (bytesToString b)).toOption) |>.bind parseScenario with
  | none => "nospec"
  | some p =>
    let fs := parseFields res
    let r : Option (Option String) :=
      match prop with
      | "C11" => some (oracleC11 p fs)
      | "C18" => some (oracleC18 p fs)
      | "C03" => some (oracleC03 p fs (parseExpect p.json).isSome
          ((parseExpect p.json).bind fun ex => if ex.sizesSafe && ex.errCode == 0 then some ex.respValues else none))
      | "C13" => some (oracleC13 p res)
      | "C02" => some (oracleC02 p fs (parseExpect p.json).isSome)
      | "C19" => some (oracleC19 p fs)
      | "C12" => some (oracleC12 p fs)
      | "C09" => some (oracleC09 p fs)
      | "C10" => (parseExpect p.json).map fun ex => oracleC10 p ex fs
      | "C01" => (parseExpect p.json).map fun ex => oracleC01 p ex fs
      | "C04" => (parseExpect p.json).map fun ex => oracleC04 p ex fs
      | "C05" => some (oracleC05 p (parseExpect p.json) fs)
      | "C16" => some (oracleC16 p (parseExpect p.json) fs)
      | _ => none
    match r with
    | none => "nospec"
    | some none => "ok"
    | some (some why) => "fail " ++ why


/-- C19 on a GET/POST pair with the same content: both are handled alike and the backend is handed
    the same message. -/
def specGetPost (hexA hexB : String) (res : List String) : String :=
  let parse (h : String) := (fromHex h).bind (fun b => (Json.parse (bytesToString b)).toOption) |>.bind parseScenario
  match parse hexA, parse hexB, (" ".intercalate res).splitOn " ## " with
  | some pa, some pb, [ra, rb] =>
    let fa := parseFields (ra.splitOn " ")
    let fb := parseFields (rb.splitOn " ")
    match branchOf pa, branchOf pb with
    | .transcoded oa, .transcoded ob =>
      if fieldOf fa "disp" != fieldOf fb "disp" then "fail GET and POST with the same content are dispatched differently"
      else if fieldOf fa "disp" != "svc" then "ok"
      else if fieldOf fa "bre" != "eof" || fieldOf fb "bre" != "eof" then "ok"
      else match backendValue oa fa, backendValue ob fb with
        | some va, some vb => if va == vb then "ok" else "fail message decoded from the GET query differs from the POST body"
        | none, none => "ok"
        | _, _ => "fail only one of GET/POST delivered a decodable message"
    | _, _ => "ok"
  | _, _, _ => "nospec"

end Vanguard.Driver
