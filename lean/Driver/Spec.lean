import Driver.Ops
import Vanguard.Spec.Codes
import Vanguard.Spec.Timeout
import Vanguard.Spec.Routing
import Vanguard.Props.C09
/-!
  Oracle mode: `vgdriver spec Cxx` reads lines `op args…<TAB>result` (result = what the
  *implementation* printed) and evaluates the executable specification the theorems of
  `Props/Cxx.lean` are about.  Output per line: `ok`, `fail <reason>` or `nospec`.
-/
namespace Vanguard.Driver
open Vanguard

def parseOptNat : List String → Option (Option Nat)
  | ["panic"] => some none
  | [n] => n.toNat?.map some
  | _ => none

def parseExtracted : List String → Option (Option (Option Int))
  | ["reject"] => some none
  | ["none"] => some (some none)
  | ["some", d] => d.toInt?.map (fun x => some (some x))
  | _ => none

def parseMatch : List String → Option MatchRes
  | ["none"] => some .none
  | ["panic"] => some .panic
  | ["allow", h] => (fromHex h).map fun b => .allow (splitOnByte 0x2C b)
  | "found" :: idx :: vars => do
    let i ← idx.toNat?
    let vs ← vars.mapM fromHex
    pure (.found i vs)
  | _ => none

def verdict (b : Bool) (why : String) : String := if b then "ok" else "fail " ++ why

def specCheck (prop : String) (op res : List String) : String :=
  -- the harness watchdog: the implementation did not return from this operation at all
  if res == ["HANG"] then "fail the call did not return (deadlock or endless loop) within the watchdog period" else
  if res == ["not-run-after-hang"] then "nospec" else
  match prop, op with
  | "C04", ["status_from_rpc", n] =>
    match n.toNat?, parseOptNat res with
    | some k, some out => verdict (Spec.statusFromRPCOk k out) "status is not the published one (or panic)"
    | _, _ => "fail unparsable result"
  | "C11", ["status_from_rpc", _] => verdict (res != ["panic"]) "panic"
  | "C11", op :: args =>
    -- every leaf function reachable with attacker-controlled text (header values, paths): never a panic
    if ["pct_dec", "pct_enc", "grpc_extract", "connect_extract", "grpc_enc", "connect_enc", "path_unescape", "path_escape", "tmpl_parse", "env_dec", "env_enc", "grpc_dec", "parse_int64", "format_int", "route"].contains op then
      verdict (res != ["panic"]) "panic in a function that processes client- or backend-controlled text"
    else if ["rest_in", "rest_http", "rest_out", "rest_out_cut", "rest_rt", "schema_req", "schema_ext", "schema_rev", "schema_mixed", "schema_rest_grpc", "config", "config_err"].contains op then
      -- whole requests (and configurations) with hostile paths, query keys and bodies: never a panic
      let r := " ".intercalate res
      verdict ((r.splitOn "panic").length == 1 && (r.splitOn "PANIC").length == 1) "panic while serving a REST request or building a configuration"
    else match op, args with
      | "e2e", [h] => specE2E "C11" h res
      | "e2e_fresh", [h] => specE2E "C11" h res
      | _, _ => "nospec"
  | "C04", ["status_to_rpc", n] =>
    match n.toInt?, res with
    | some k, [r] => match r.toNat? with
      | some out => verdict (Spec.statusToRPCOk k out) "code is not the published mapping"
      | none => "fail unparsable result"
    | _, _ => "fail unparsable result"
  | "C04", ["pct_enc", h] =>
    match fromHex h, res with
    | some m, [r] => match fromHex r with
      | some enc => verdict (Spec.printableAscii enc && grpcPercentDecode enc == some m)
          "encoded grpc-message not printable or does not decode to the message"
      | none => "fail unparsable result"
    | _, _ => "fail unparsable result"
  | "C12", ["grpc_extract", h] =>
    match fromHex h, parseExtracted res with
    | some s, some out => verdict (Spec.grpcExtractOk s out)
        "Grpc-Timeout: valid value rejected/altered, or definitely malformed value accepted"
    | _, _ => "fail unparsable result"
  | "C12", ["connect_extract", h] =>
    match fromHex h, parseExtracted res with
    | some s, some out => verdict (Spec.connectExtractOk s out)
        "Connect-Timeout-Ms: valid value rejected/altered, or definitely malformed value accepted"
    | _, _ => "fail unparsable result"
  | "C12", ["grpc_enc", n] =>
    match n.toInt?, res with
    | some d, [r] => match fromHex r with
      | some enc => verdict (Spec.grpcEncodeOk d enc) "Grpc-Timeout sent to backend is invalid, exceeds the client's or is short by a unit or more"
      | none => "fail unparsable result"
    | _, _ => "fail unparsable result"
  | "C12", ["connect_enc", n] =>
    match n.toInt?, res with
    | some d, [r] => match fromHex r with
      | some enc => verdict (Spec.connectEncodeOk d enc) "Connect-Timeout-Ms sent to backend is invalid, exceeds the client's or is short by 1ms or more"
      | none => "fail unparsable result"
    | _, _ => "fail unparsable result"
  | "C12", [op, h] => if op == "e2e" || op == "e2e_fresh" then specE2E "C12" h res else "nospec"
  | "C06", ["route", rules, path, method] =>
    match fromHex rules, fromHex path, fromHex method with
    | some rs, some p, some m =>
      match addRoutes 0 [] (parseRules rs) with
      | .error _ => "nospec"     -- rejected tables are C17's business
      | .ok routes =>
        match parseMatch res with
        | some r => verdict (Spec.routeOutcomeOk routes p m r)
            "routing outcome contradicts the declarative matcher (wrong binding / captures / Allow / 404 / precedence)"
        | none => "fail unparsable result"
    | _, _, _ => "fail unparsable args"
  | "C06", ["path_escape", "single", h] =>
    match fromHex h, res with
    | some s, [r] => match fromHex r with
      | some enc => verdict (pathUnescape .single enc == some s && enc.all isLiteral)
          "escaped value is not a literal segment or does not decode to the value"
      | none => "fail unparsable result"
    | _, _ => "fail unparsable result"
  | "C08", ["e2e_pair", _, _] =>
    -- the observation must not depend on how request bytes, reads and writes are segmented
    match (" ".intercalate res).splitOn " ## " with
    | [a, b] =>
      -- the per-operation progress logs have one entry per read/write operation: not comparable
      let strip (x : String) := (x.splitOn " ").filter fun t => !(t.startsWith "rp=" || t.startsWith "wp=")
      verdict (strip a == strip b) "observation depends on the segmentation of reads/writes"
    | _ => "fail unparsable result"
  | "C09", ["env_dec", h, b] =>
    match envOf h, fromHex b with
    | some e, some (f :: _) => verdict ((res != ["err"]) == C09.legalFlags e f) "envelope flags accepted although illegal for the handler (or legal ones rejected)"
    | _, _ => "nospec"
  | "C15", ["e2e_hist", _] =>
    match (" ".intercalate res).splitOn " ## " with
    | [a, b] =>
      if (a.splitOn "poolviol=").length > 1 then "fail pooled state misused: " ++ ((a.splitOn "poolviol=").getD 1 "")
      else verdict (a == b) "outcome on the used Transcoder differs from the outcome on a fresh one"
    | _ => "fail unparsable result"
  | "C18", ["rest_out_cut", h] =>
    let want := runRestOutCut h
    if want == "config-rejected" || want == "bad-arg" then "nospec"
    else verdict ((" ".intercalate res).startsWith "disp=0") "a request whose only message was cut was dispatched to the REST backend"
  | "C09", ["rest_out_cut", h] =>
    let want := runRestOutCut h
    if want == "config-rejected" || want == "bad-arg" then "nospec"
    else verdict (" ".intercalate res == "disp=0 err") "a cut request message was not reported as an error (dispatched, or answered as success)"
  | "C18", ["rest_out", h] =>
    -- a REST-only service: the handler runs once when the request line can be built from the message,
    -- and not at all when it cannot (the request is rejected before dispatch)
    let want := runRestOut h
    let got := " ".intercalate res
    if want.startsWith "disp=0" then verdict (got.startsWith "disp=0") "the handler was invoked although the backend request could not be built"
    else if want == "config-rejected" || want == "bad-arg" then "nospec"
    else verdict (got.startsWith "disp=1 ") "the handler was not invoked exactly once for a servable request"
  | "C15", [op, h] =>
    -- the REST stream keeps one Transcoder per rule and converts many different messages through it:
    -- each conversion must be the one the (history-free) model computes
    if op == "rest_rt" then verdict (runRestRT h == " ".intercalate res) "a conversion to REST depends on what the same route converted before"
    else if op == "rest_in" || op == "rest_http" then verdict (runRestIn h == " ".intercalate res) "parsing of a REST request depends on earlier requests"
    else if op == "e2e" || op == "e2e_fresh" then specE2E "C15" h res
    else "nospec"
  | "C14", ["e2e_hist", _] =>
    let r := " ".intercalate res
    verdict ((r.splitOn "poolviol=").length == 1) ("a pooled buffer or compressor was shared or released twice: " ++ ((r.splitOn "poolviol=").getD 1 ""))
  | "C14", ["pool_trace", _] =>
    verdict (res == ["exclusive"]) "recorded pool trace: a buffer was released by a non-holder or handed to two holders"
  | "C14", "e2e_conc" :: hs =>
    let parts := (" ".intercalate res).splitOn " ## "
    if parts.length != hs.length + 1 then "fail unparsable result" else
    let pool := parts.getLast!
    if pool != "pool=ok" then "fail pooled buffer or compressor shared between concurrent holders: " ++ pool else
    -- each RPC's outcome must be the one it has when it runs alone (the solo outcome is the model's,
    -- which the e2e stream compares with the implementation's solo runs)
    let bad := (hs.zip parts).filter fun (h, obs) => runE2E h != obs
    verdict bad.isEmpty ("outcome of a concurrently served RPC differs from its solo outcome (" ++ toString bad.length ++ " of " ++ toString hs.length ++ ")")
  | "C20", ["schema_tables", _] =>
    verdict (res.head? != some "DIFF") "tables or routing differ between two ways of loading the same schema"
  | "C20", ["schema_grpc", _] =>
    verdict (res.head? == some "same") "vanguardgrpc.NewTranscoder differs from the same services registered by name"
  | "C20", ["schema_ext", _] =>
    verdict (" ".intercalate res == "status=200 req-ext=true resp-ext=true")
      "an extension field of a schema that exists only as descriptors was lost (or the RPC failed): dynamic messages must honour the schema's own resolver"
  | "C20", ["schema_rev", _] =>
    verdict (" ".intercalate res == "status=200 title=true any=true")
      "a message type that only the loaded revision of a linked-in schema defines was not resolved from the loaded schema (Any lost or RPC failed): behaviour depends on what else is linked in"
  | "C20", ["schema_mixed", _] =>
    verdict (" ".intercalate res == "status=200 same=true ok=true")
      "a method whose request type comes from a shared file and whose response type from the loaded file is served differently (or fails) depending on the type resolver"
  | "C20", ["schema_req", _] =>
    let r := " ".intercalate res
    if r.startsWith "DIFF" then "fail the same request has different outcomes depending on how the schema was loaded: " ++ (r.take 300).toString
    else if (r.splitOn "PANIC").length > 1 then "fail panic while serving through a loading route"
    else if r.startsWith "config-rejected" then "fail a loading route was rejected by NewTranscoder"
    else "ok"
  | "C07", ["rest_rt", h] =>
    -- a message converted to a REST request and parsed back must be unchanged
    match res with
    | "enc" :: _ =>
      if res.getLast? == some "same=1" then "ok"
      else if rtOnlySlashSpelling h then "fail [multi-var-lowercase-slash] a message converted to REST and back changed: an escaped slash spelled %2f in the value of a multi-segment variable came back as %2F"
      else "fail a message converted to REST and back changed (or could not be parsed back)"
    | ["encerr", _] => "ok"      -- the message does not fit the rule's pattern / cannot be URL-encoded
    | ["config-rejected"] => "ok"
    | _ => "fail unparsable result"
  | "C01", [op, h] =>
    -- a message sent to a REST-only service arrives with the same field values (path, query, body) or the
    -- RPC fails: never another value, never a request that does not belong to the rule
    if op == "rest_out" then
      verdict (runRestOut h == " ".intercalate res) "a message sent to a REST-only service reached the backend altered (or was dispatched although it does not fit the rule)"
    else if op == "rest_rt" then
      match res with
      | "enc" :: _ =>
        if res.getLast? == some "same=1" then "ok"
        else if rtOnlySlashSpelling h then "fail [multi-var-lowercase-slash] a message converted to REST and back changed: an escaped slash spelled %2f in the value of a multi-segment variable came back as %2F"
        else "fail a message converted to REST and back changed (or could not be parsed back)"
      | ["encerr", _] => "ok"
      | ["config-rejected"] => "ok"
      | _ => "fail unparsable result"
    else if op == "e2e" || op == "e2e_fresh" then specE2E "C01" h res
    else "nospec"
  | "C06", ["rest_http", h] =>
    -- the whole stack (`ServeHTTP`, `net/url`, `resolveMethod`): the request is dispatched iff its raw path
    -- matches the template, with the captures percent-decoded once
    verdict (runRestIn h == " ".intercalate res) "a REST request was not routed by its raw path / its variables are not the template's captures decoded once"
  | "C07", [op, h] =>
    if op == "rest_out" then
      verdict (runRestOut h == " ".intercalate res) "an RPC sent to a REST-only service did not reach the backend as the request its rule prescribes, exactly once (or was dispatched although it does not fit the rule)"
    else if op == "rest_out_cut" then
      verdict (runRestOutCut h == " ".intercalate res) "a cut request message was dispatched to the REST backend or not reported as an error"
    else if op == "rest_in" || op == "rest_http" then
      -- an ill-typed parameter is invalid_argument, never a value: judged against the model's kinds
      verdict (runRestIn h == " ".intercalate res) "REST request parsed differently from the binding rules (google.api.http)"
    else "nospec"
  | "C17", ["config", h] => specConfig h res
  | "C17", ["config_err", h] => specConfigErr h res
  | "C19", ["e2e_getpost", a, b] => specGetPost a b res
  | "C19", ["schema_req", _] =>
    -- the Connect backend stub flags a GET whose URL is longer than the configured maximum
    verdict (((" ".intercalate res).splitOn "GET-URL-OVER-LIMIT").length == 1) "a GET longer than the configured maximum URL length was issued to the Connect backend"
  | "C03", ["schema_rest_grpc", _] =>
    let r := " ".intercalate res
    if (r.splitOn "BAD-RESPONSE").length == 1 then "ok"
    else if (r.splitOn "mode=ok-uncompressed-frame").length > 1 && (r.splitOn "content-encoding-gzip-but-body-is-not").length > 1 then
      "fail [uncompressed-frame-to-unenveloped-peer] " ++ r
    else "fail the response is not valid for a REST client: " ++ r
  | prop, ["e2e", h] => specE2E prop h res
  | prop, ["e2e_fresh", h] => specE2E prop h res
  | _, _ => "nospec"

end Vanguard.Driver
