import Vanguard.Model.Basic
