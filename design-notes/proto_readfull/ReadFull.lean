abbrev Bytes := List UInt8

/-- adversarial reader: `sched` bounds how many bytes each underlying Read may return (clipped to ≥ 1) -/
structure Src where
  data : Bytes
  sched : List Nat

/-- one `Read(p)` with `len p = k` (k ≥ 1): returns between 1 and k bytes, or [] at EOF -/
def Src.read (s : Src) (k : Nat) : Bytes × Src :=
  let lim := match s.sched with | [] => k | c :: _ => min k (max 1 c)
  (s.data.take lim, { data := s.data.drop lim, sched := s.sched.tail })

/-- io.ReadFull(r, buf[:n]) as a fuelled loop; returns bytes read (short ⇒ EOF/UnexpectedEOF) -/
def readFullLoop : Nat → Src → Nat → Bytes → Bytes × Src
  | 0, s, _, acc => (acc, s)
  | fuel+1, s, need, acc =>
    if need = 0 then (acc, s) else
    let (got, s') := s.read need
    if got = [] then (acc, s') else readFullLoop fuel s' (need - got.length) (acc ++ got)

def readFull (s : Src) (n : Nat) : Bytes × Src := readFullLoop n s n []

theorem read_spec (s : Src) (k : Nat) (hk : 1 ≤ k) :
    ∃ m, 1 ≤ m ∧ m ≤ k ∧ (s.read k).1 = s.data.take m ∧ (s.read k).2.data = s.data.drop m := by
  unfold Src.read
  cases s.sched with
  | nil => exact ⟨k, hk, Nat.le_refl _, rfl, rfl⟩
  | cons c _ => exact ⟨min k (max 1 c), by omega, by omega, rfl, rfl⟩

theorem readFullLoop_spec : ∀ (fuel : Nat) (s : Src) (need : Nat) (acc : Bytes), need ≤ fuel →
    (readFullLoop fuel s need acc).1 = acc ++ s.data.take need ∧
    (readFullLoop fuel s need acc).2.data = s.data.drop need := by
  intro fuel
  induction fuel with
  | zero => intro s need acc h; have : need = 0 := by omega
            subst this; simp [readFullLoop]
  | succ fuel ih =>
    intro s need acc h
    unfold readFullLoop
    by_cases h0 : need = 0
    · simp [h0]
    · simp only [h0, if_false]
      obtain ⟨m, hm1, hmk, htake, hdrop⟩ := read_spec s need (by omega)
      by_cases hgot : (s.read need).1 = []
      · simp only [hgot, if_true]
        rw [htake] at hgot
        have hd : s.data = [] := by
          cases hdat : s.data with
          | nil => rfl
          | cons x xs => rw [hdat] at hgot; cases m with
            | zero => omega
            | succ m => simp at hgot
        constructor
        · simp [hd]
        · rw [hdrop]; simp [hd]
      · simp only [hgot, if_false]
        have hlen : (s.read need).1.length ≤ m := by rw [htake]; simp [List.length_take]; omega
        have hpos : 1 ≤ (s.read need).1.length := by
          cases hg : (s.read need).1 with
          | nil => exact absurd hg hgot
          | cons _ _ => simp
        have := ih (s.read need).2 (need - (s.read need).1.length) (acc ++ (s.read need).1) (by omega)
        rw [this.1, this.2, hdrop, htake]
        have hl : (List.take m s.data).length = min m s.data.length := by simp [List.length_take]
        constructor
        · rw [List.append_assoc]; congr 1
          rw [hl]
          by_cases hc : m ≤ s.data.length
          · rw [Nat.min_eq_left hc]
            have : need = m + (need - m) := by omega
            conv => rhs; rw [this, List.take_add]
          · have hc' : s.data.length ≤ m := by omega
            rw [Nat.min_eq_right hc', List.take_of_length_le hc', List.drop_of_length_le hc']
            simp; rw [List.take_of_length_le (by omega)]
        · rw [hl, List.drop_drop]
          by_cases hc : m ≤ s.data.length
          · rw [Nat.min_eq_left hc]; congr 1; omega
          · have hc' : s.data.length ≤ m := by omega
            rw [List.drop_of_length_le (by omega), List.drop_of_length_le (by omega)]

/-- schedule independence of ReadFull -/
theorem readFull_sched_indep (d : Bytes) (sc₁ sc₂ : List Nat) (n : Nat) :
    (readFull ⟨d, sc₁⟩ n).1 = (readFull ⟨d, sc₂⟩ n).1 ∧
    (readFull ⟨d, sc₁⟩ n).2.data = (readFull ⟨d, sc₂⟩ n).2.data := by
  have h1 := readFullLoop_spec n ⟨d, sc₁⟩ n [] (Nat.le_refl _)
  have h2 := readFullLoop_spec n ⟨d, sc₂⟩ n [] (Nat.le_refl _)
  unfold readFull
  exact ⟨by rw [h1.1, h2.1], by rw [h1.2, h2.2]⟩

#print axioms readFull_sched_indep
