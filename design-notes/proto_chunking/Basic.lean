abbrev Bytes := List UInt8

def be32 (b1 b2 b3 b4 : UInt8) : Nat :=
  b1.toNat * 16777216 + b2.toNat * 65536 + b3.toNat * 256 + b4.toNat

structure W where
  writingEnv : Bool := true
  env : Bytes := []
  remaining : Nat := 5
  dead : Bool := false
  out : Bytes := []
deriving Repr, DecidableEq

def W.die (w : W) : W := { w with dead := true, env := [], remaining := 0, writingEnv := false }

/-- handleEnvelopeWritten -/
def W.afterEnv (w : W) (e : Bytes) : W :=
  match e with
  | [f, b1, b2, b3, b4] =>
    if f != 0 && f != 1 then w.die
    else { w with writingEnv := false, env := [], remaining := be32 b1 b2 b3 b4,
                  out := w.out ++ [f + 2, b1, b2, b3, b4] }
  | _ => w.die

/-- one iteration of the Go `for` loop body; returns (state, rest-of-data, continue?) -/
def W.iter (w : W) (data : Bytes) : W × Bytes × Bool :=
  if w.dead then (w, data, false) else
  if data.length < w.remaining then
    if w.writingEnv then ({ w with env := w.env ++ data, remaining := w.remaining - data.length }, [], false)
    else ({ w with out := w.out ++ data, remaining := w.remaining - data.length }, [], false)
  else
    let chunk := data.take w.remaining
    let rest := data.drop w.remaining
    if w.writingEnv then
      let w' := w.afterEnv (w.env ++ chunk)
      (w', rest, !w'.dead)
    else
      ({ w with out := w.out ++ chunk, writingEnv := true, remaining := 5 }, rest, true)

def W.loop : Nat → W → Bytes → W
  | 0, w, _ => w
  | fuel+1, w, data =>
    let (w', rest, cont) := w.iter data
    if cont then W.loop fuel w' rest else w'

def W.write (w : W) (data : Bytes) : W := W.loop (2 * data.length + 2) w data

def W.close0 (w : W) : W :=
  if !w.dead && !w.writingEnv && w.remaining == 0 then { w with writingEnv := true, remaining := 5 } else w

def W.byte (w : W) (b : UInt8) : W :=
  if w.dead then w else
  if w.writingEnv then
    if w.remaining == 1 then (w.afterEnv (w.env ++ [b])).close0
    else { w with env := w.env ++ [b], remaining := w.remaining - 1 }
  else
    if w.remaining == 1 then { w with out := w.out ++ [b], writingEnv := true, remaining := 5 }
    else { w with out := w.out ++ [b], remaining := w.remaining - 1 }

#eval (W.write {} [0,0,0,0,2,7,8,1,0,0,0,0, 0,0,0,0,1,9]).out
#eval ([0,0,0,0,2,7,8,1,0,0,0,0, 0,0,0,0,1,9].foldl W.byte ({}:W)).out
