import Proto1.Basic

theorem foldl_byte_dead (w : W) (h : w.dead = true) (data : Bytes) : data.foldl W.byte w = w := by
  induction data with
  | nil => rfl
  | cons b bs ih => simp [List.foldl, W.byte, h, ih]

/-- partial ingestion while collecting an envelope -/
theorem foldl_byte_env_partial (data : Bytes) : ∀ (w : W), w.dead = false → w.writingEnv = true →
    data.length < w.remaining →
    data.foldl W.byte w = { w with env := w.env ++ data, remaining := w.remaining - data.length } := by
  induction data with
  | nil => intro w _ _ _; simp
  | cons b bs ih =>
    intro w hd he hl
    simp only [List.length_cons] at hl
    have h1 : (w.remaining == 1) = false := by
      simp; omega
    have step : W.byte w b = { w with env := w.env ++ [b], remaining := w.remaining - 1 } := by
      simp [W.byte, hd, he, h1]
    simp only [List.foldl, step]
    rw [ih _ (by simp [hd]) (by simp [he]) (by simp; omega)]
    simp [List.append_assoc]
    omega

theorem foldl_byte_pay_partial (data : Bytes) : ∀ (w : W), w.dead = false → w.writingEnv = false →
    data.length < w.remaining →
    data.foldl W.byte w = { w with out := w.out ++ data, remaining := w.remaining - data.length } := by
  induction data with
  | nil => intro w _ _ _; simp
  | cons b bs ih =>
    intro w hd he hl
    simp only [List.length_cons] at hl
    have h1 : (w.remaining == 1) = false := by
      simp; omega
    have step : W.byte w b = { w with out := w.out ++ [b], remaining := w.remaining - 1 } := by
      simp [W.byte, hd, he, h1]
    simp only [List.foldl, step]
    rw [ih _ (by simp [hd]) (by simp [he]) (by simp; omega)]
    simp [List.append_assoc]
    omega

def W.Inv (w : W) : Prop :=
  w.dead = true ∨ (w.writingEnv = true ∧ w.env.length + w.remaining = 5 ∧ 1 ≤ w.remaining) ∨
  (w.writingEnv = false ∧ w.env = [])

theorem close0_dead (w : W) (h : w.dead = true) : w.close0 = w := by simp [W.close0, h]

theorem byte_env_last (w : W) (b : UInt8) (hd : w.dead = false) (he : w.writingEnv = true)
    (h1 : w.remaining = 1) : W.byte w b = (w.afterEnv (w.env ++ [b])).close0 := by
  simp [W.byte, hd, he, h1]

theorem foldl_byte_env_exact (chunk : Bytes) (w : W) (hd : w.dead = false) (he : w.writingEnv = true)
    (hr : 1 ≤ w.remaining) (hl : chunk.length = w.remaining) :
    chunk.foldl W.byte w = (w.afterEnv (w.env ++ chunk)).close0 := by
  obtain ⟨init, b, rfl⟩ : ∃ init b, chunk = init ++ [b] := by
    cases h : chunk.reverse with
    | nil => simp at h; subst h; simp at hl; omega
    | cons x xs => exact ⟨xs.reverse, x, by have := congrArg List.reverse h; simpa using this⟩
  simp only [List.length_append, List.length_cons, List.length_nil] at hl
  rw [List.foldl_append, foldl_byte_env_partial init w hd he (by omega)]
  simp only [List.foldl]
  rw [byte_env_last _ b (by simp [hd]) (by simp [he]) (by simp; omega)]
  simp [W.afterEnv, W.die, List.append_assoc]

theorem foldl_byte_pay_exact (chunk : Bytes) (w : W) (hd : w.dead = false) (he : w.writingEnv = false)
    (hr : 1 ≤ w.remaining) (hl : chunk.length = w.remaining) :
    chunk.foldl W.byte w = { w with out := w.out ++ chunk, writingEnv := true, remaining := 5 } := by
  obtain ⟨init, b, rfl⟩ : ∃ init b, chunk = init ++ [b] := by
    cases h : chunk.reverse with
    | nil => simp at h; subst h; simp at hl; omega
    | cons x xs => exact ⟨xs.reverse, x, by have := congrArg List.reverse h; simpa using this⟩
  simp only [List.length_append, List.length_cons, List.length_nil] at hl
  rw [List.foldl_append, foldl_byte_pay_partial init w hd he (by omega)]
  simp only [List.foldl]
  have h1 : (w.remaining - init.length == 1) = true := by simp; omega
  simp [W.byte, hd, he, h1, List.append_assoc]

theorem afterEnv_inv (w : W) (e : Bytes) : (w.afterEnv e).Inv := by
  unfold W.afterEnv
  split
  · split
    · left; simp [W.die]
    · right; right; simp
  · left; simp [W.die]

theorem loop_refines : ∀ (fuel : Nat) (w : W) (data : Bytes), w.Inv →
    2 * data.length + 2 ≤ fuel + (if w.writingEnv = false ∧ w.remaining = 0 ∧ w.dead = false then 0 else 1) →
    W.loop fuel w data = data.foldl W.byte w.close0 ∧ (W.loop fuel w data).Inv := by
  intro fuel
  induction fuel with
  | zero => intro w data _ hf; split at hf <;> omega
  | succ fuel ih =>
    intro w data hinv hf
    unfold W.loop
    by_cases hd : w.dead = true
    · -- dead
      simp [W.iter, hd, close0_dead, foldl_byte_dead, hinv]
    · have hd' : w.dead = false := by simpa using hd
      by_cases hlt : data.length < w.remaining
      · -- partial ingestion
        have hc : w.close0 = w := by
          simp [W.close0]; intro _ _ h0; omega
        rw [hc]
        by_cases he : w.writingEnv = true
        · simp only [W.iter, hd', hlt, he, if_true, Bool.false_eq_true, if_false]
          rw [foldl_byte_env_partial data w hd' he hlt]
          refine ⟨by cases w; simp_all, ?_⟩
          rcases hinv with h | ⟨_, h1, h2⟩ | ⟨h, _⟩
          · simp [hd'] at h
          · right; left; simp [he]; omega
          · simp [he] at h
        · have he' : w.writingEnv = false := by simpa using he
          simp only [W.iter, hd', hlt, he', if_true, Bool.false_eq_true, if_false]
          rw [foldl_byte_pay_partial data w hd' he' hlt]
          refine ⟨by cases w; simp_all, ?_⟩
          rcases hinv with h | ⟨h, _⟩ | ⟨_, h2⟩
          · simp [hd'] at h
          · simp [he'] at h
          · right; right; simp [he', h2]
      · -- complete the current unit
        have hge : w.remaining ≤ data.length := by omega
        have hsplit : data = data.take w.remaining ++ data.drop w.remaining := (List.take_append_drop _ _).symm
        have htl : (data.take w.remaining).length = w.remaining := by simp [List.length_take]; omega
        by_cases he : w.writingEnv = true
        · have hc : w.close0 = w := by simp [W.close0, he]
          have hr : 1 ≤ w.remaining := by
            rcases hinv with h | ⟨_, _, h2⟩ | ⟨h, _⟩
            · simp [hd'] at h
            · exact h2
            · simp [he] at h
          simp only [W.iter, hd', hlt, he, if_true, Bool.false_eq_true, if_false]
          rw [hc]
          conv => lhs; rhs; rw [hsplit]
          rw [List.foldl_append, foldl_byte_env_exact _ w hd' he hr htl]
          by_cases hdead : (w.afterEnv (w.env ++ data.take w.remaining)).dead = true
          · simp [hdead, close0_dead, foldl_byte_dead, afterEnv_inv]
          · have hdead' : (w.afterEnv (w.env ++ data.take w.remaining)).dead = false := by simpa using hdead
            simp only [hdead', Bool.not_false, if_true]
            have := ih (w.afterEnv (w.env ++ data.take w.remaining)) (data.drop w.remaining) (afterEnv_inv _ _)
              (by simp only [List.length_drop]; split <;> split at hf <;> omega)
            exact this
        · have he' : w.writingEnv = false := by simpa using he
          simp only [W.iter, hd', hlt, he', if_true, Bool.false_eq_true, if_false]
          have hnext : ({ w with out := w.out ++ data.take w.remaining, writingEnv := true, remaining := 5 } : W).Inv := by
            rcases hinv with h | ⟨h, _⟩ | ⟨_, h2⟩
            · simp [hd'] at h
            · simp [he'] at h
            · right; left; simp [h2]
          by_cases h0 : w.remaining = 0
          · -- zero-length message: no data consumed
            have hc : w.close0 = { w with out := w.out ++ data.take w.remaining, writingEnv := true, remaining := 5 } := by
              simp [W.close0, hd', he', h0]
            have := ih _ (data.drop w.remaining) hnext (by
              simp only [List.length_drop, h0]; simp [hd', he', h0] at hf; simp; omega)
            rw [hc]
            simp only [h0, List.drop_zero] at this ⊢
            have hc2 : ({ w with out := w.out ++ List.take 0 data, writingEnv := true, remaining := 5 } : W).close0 =
                { w with out := w.out ++ List.take 0 data, writingEnv := true, remaining := 5 } := by simp [W.close0]
            rw [hc2] at this
            simpa [hd'] using this
          · have hr : 1 ≤ w.remaining := by omega
            have hc : w.close0 = w := by simp [W.close0]; intro _ _ h; omega
            rw [hc]
            conv => lhs; rhs; rw [hsplit]
            rw [List.foldl_append, foldl_byte_pay_exact _ w hd' he' hr htl]
            have := ih _ (data.drop w.remaining) hnext (by
              simp only [List.length_drop]; simp; split at hf <;> omega)
            have hc2 : ({ w with out := w.out ++ data.take w.remaining, writingEnv := true, remaining := 5 } : W).close0 =
                { w with out := w.out ++ data.take w.remaining, writingEnv := true, remaining := 5 } := by simp [W.close0]
            rw [hc2] at this
            simpa [hd'] using this

/-- A state between `Write` calls: invariant plus "no pending zero-length message". -/
def W.Rest (w : W) : Prop := w.Inv ∧ w.close0 = w

theorem write_refines (w : W) (data : Bytes) (h : w.Rest) :
    w.write data = data.foldl W.byte w ∧ (w.write data).Inv := by
  have := loop_refines (2 * data.length + 2) w data h.1 (by split <;> omega)
  rw [h.2] at this
  exact this

theorem foldl_byte_rest : ∀ (data : Bytes) (w : W), w.Rest → (data.foldl W.byte w).Rest := by
  intro data
  induction data with
  | nil => intro w h; exact h
  | cons b bs ih =>
    intro w h
    apply ih
    obtain ⟨hinv, hc⟩ := h
    unfold W.byte
    by_cases hd : w.dead = true
    · simp [hd]; exact ⟨hinv, hc⟩
    · have hd' : w.dead = false := by simpa using hd
      simp only [hd', Bool.false_eq_true, if_false]
      by_cases he : w.writingEnv = true
      · simp only [he, if_true]
        split
        · have hi := afterEnv_inv w (w.env ++ [b])
          constructor
          · rcases hi with h | ⟨h, _⟩ | ⟨h1, h2⟩
            · left; simp [W.close0, h]
            · unfold W.close0; simp [h]; right; left; simpa [h] using ‹_›
            · unfold W.close0
              split
              · right; left; simp [h2]
              · right; right; exact ⟨h1, h2⟩
          · unfold W.close0; split
            · simp
            · rfl
        · rename_i h1
          rcases hinv with h | ⟨_, h2, h3⟩ | ⟨h, _⟩
          · simp [hd'] at h
          · constructor
            · right; left; simp [he]; simp at h1; omega
            · simp [W.close0, he]
          · simp [he] at h
      · have he' : w.writingEnv = false := by simpa using he
        simp only [he', Bool.false_eq_true, if_false]
        rcases hinv with h | ⟨h, _⟩ | ⟨_, h2⟩
        · simp [hd'] at h
        · simp [he'] at h
        · split
          · exact ⟨by right; left; simp [h2], by simp [W.close0]⟩
          · rename_i h1
            have hne : w.remaining ≠ 0 := by
              intro h0; simp [W.close0, hd', he', h0] at hc
              have := congrArg W.writingEnv hc; simp [he'] at this
            exact ⟨by right; right; simp [he', h2], by simp [W.close0]; simp at h1; omega⟩

/-- C08-style statement for the prototype writer: any two segmentations of the same byte
    stream leave the writer in the same state (same bytes emitted, same error). -/
theorem writes_chunking_independent (w : W) (h : w.Rest) (chunks : List Bytes) :
    chunks.foldl W.write w = chunks.flatten.foldl W.byte w := by
  induction chunks generalizing w with
  | nil => rfl
  | cons c cs ih =>
    simp only [List.foldl, List.flatten_cons, List.foldl_append]
    have hw := write_refines w c h
    rw [hw.1]
    exact ih _ (foldl_byte_rest c w h)

theorem chunking_independent (chunks₁ chunks₂ : List Bytes) (h : chunks₁.flatten = chunks₂.flatten) :
    chunks₁.foldl W.write {} = chunks₂.foldl W.write {} := by
  have h0 : ({} : W).Rest := ⟨by right; left; simp, by simp [W.close0]⟩
  rw [writes_chunking_independent _ h0, writes_chunking_independent _ h0, h]

#print axioms chunking_independent
