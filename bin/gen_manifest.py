#!/usr/bin/env python3
"""Regenerates /verif/MANIFEST.json from bin/checks_config.py and manifest_meta.json."""
import json, os, sys
VERIF = os.path.dirname(os.path.dirname(os.path.abspath(__file__)))
sys.path.insert(0, os.path.join(VERIF, "bin"))
from checks_config import CHECKS, TRUSTED_BASE
meta = json.load(open(os.path.join(VERIF, "bin", "manifest_meta.json")))
props = [json.loads(l) for l in open(os.path.join(VERIF, "properties.jsonl"))]
checks, na = [], []
for p in props:
    pid = p["id"]
    if pid in CHECKS:
        c = CHECKS[pid]
        m = meta["checks"][pid]
        checks.append({
            "property_id": pid,
            "quick_cmd": "bin/check %s --tier quick" % pid,
            "thorough_cmd": "bin/check %s --tier thorough" % pid,
            "evidence_file": "/verif/evidence/%s.json" % pid,
            "replay_cmd_template": "bin/check replay {path}",
            "engine": "lean4-proof+correspondence",
            "level_claimed": {"category": "proof", "text": m["text"], "design_ref": m.get("design_ref", "DESIGN.md §7 " + pid)},
            "level_note": m["note"],
            "technique": m["technique"],
        })
    else:
        na.append({"property_id": pid, "reason": meta["not_applicable"].get(pid, "not yet covered by a check")})
manifest = {
    "version": 1,
    "setup_cmd": "bin/check setup",
    "hooks": {
        "guard": "verif",
        "enable": "go build -tags verif (the harness module replaces connectrpc.com/vanguard with /repo)",
        "baseline_off_cmd": "cd /repo && go test -vet=off -count=1 -timeout 25m ./...",
        "source_commits": meta["hook_commits"],
        "add_only": True,
    },
    "engines": [
        {"name": "lean4-proof+correspondence", "path": "/verif/lean", "serves_properties": sorted(CHECKS),
         "kind_free_text": "Lean 4 theorems about a hand-written executable model (lean/Vanguard), tied to /repo on every run by "
                           "facts regenerated from source (extract/ -> lean/Vanguard/Gen) and by a differential correspondence "
                           "(harness/ Go, built from the working tree with -tags verif, vs compiled Lean driver lean/Driver)"},
    ],
    "checks": checks,
    "not_applicable": na,
    "notes": meta["notes"],
}
json.dump(manifest, open(os.path.join(VERIF, "MANIFEST.json"), "w"), indent=1)
print("wrote MANIFEST.json: %d checks, %d not_applicable" % (len(checks), len(na)))
