"""Per-property configuration of bin/check: which Lean module holds the property's theorems,
which correspondence streams tie those theorems to /repo, and what is trusted."""

TRUSTED_BASE = [
    "Lean 4.33.0 kernel; axioms limited to propext, Classical.choice, Quot.sound (audited per theorem on every run)",
    "hand-written Lean model (lean/Vanguard/Model) is tied to /repo only by the differential correspondence "
    "(Go harness built from the working tree with -tags verif vs compiled Lean driver on the same op lines) "
    "and by facts regenerated from source (lean/Vanguard/Gen)",
    "Go harness, canonicalisers and the op-line protocol (harness/, lean/Driver)",
    "code vanguard does not own (net/http, protobuf-go, encoding/json, gzip, strconv, base64, connect-go Error) "
    "is a parameter of the model, not verified",
]

E2E_ASSUME = [
    "e2e scenarios use fake codecs (raw/hexa/rev over BytesValue) and fake RLE compressors registered through WithCodec/"
    "WithCompression, which the model computes itself; real proto/json/gzip are outside the exact e2e comparison",
    "JSON encodings of Connect errors / end-of-stream written by the backend enter the model as per-scenario tables computed "
    "by the harness with vanguard's own decoders",
    "the client connection is an httptest.ResponseRecorder (idealised net/http writer: first WriteHeader wins, trailers by "
    "declaration or TrailerPrefix); REST bindings are not part of the e2e scenarios",
]

CHECKS = {
    "C01": {
        "module": "Vanguard.Props.C01", "namespace": "Vanguard.C01", "streams": ["e2e", "rest"],
        "partial": "per-message transformation is proved for every world satisfying the codec/compressor laws; whole request streams on the re-encoding "
                   "path are proved to reach the backend as exactly the converted messages in order (any read sizes), and on the re-framing path "
                   "(client and backend with envelopes) as exactly the client's payloads under the backend's envelopes (any read sizes, any segmentation); in the response direction a well-formed stream of backend "
                   "frames is proved to reach a streaming client as exactly its converted messages under the client's envelopes (re-encoding path) resp. as its untouched payloads under the client's envelopes (re-framing path, for every split of the stream across Write calls); for "
                   "buffered (unary/REST) clients and end-of-stream frames whole-stream fidelity is checked against ground truth on fake codecs (raw/hexa/rev) and RLE compressors, not on real proto/json/gzip",
        "assumptions": E2E_ASSUME + ["WorldLaws (decode∘encode = id, decompress∘compress = id, compressed output non-empty) are hypotheses"],
    },
    "C02": {
        "module": "Vanguard.Props.C02", "namespace": "Vanguard.C02", "streams": ["e2e"],
        "partial": "negotiation, the backend's Content-Type, the announcement of a negotiated compression and the absence of left-over control headers of the client's protocol are proved; the body a backend with envelopes reads for a well-formed request is proved well framed on both paths (flag 0/1, big-endian length = payload size, any read sizes); the compressed flag against the bytes, malformed requests and the request line are an oracle on the implementation plus correspondence",
        "assumptions": E2E_ASSUME,
    },
    "C05": {
        "module": "Vanguard.Props.C05", "namespace": "Vanguard.C05", "streams": ["e2e"],
        "partial": "request direction and response headers proved (application headers reach the backend / the client's head with the same values for every protocol pairing); protocol status keys never stay in application trailers; trailers are proved to reach a Connect-streaming client in its end-of-stream frame (always), a gRPC-Web client in its trailer frame and a gRPC client as HTTP trailers (once the head is out); trailers-only responses of gRPC/gRPC-Web clients, the Trailer- headers of a unary Connect client and error responses are checked by correspondence and ground-truth oracle",
        "assumptions": E2E_ASSUME,
    },
    "C03": {
        "module": "Vanguard.Props.C03", "namespace": "Vanguard.C03", "streams": ["e2e", "schema"],
        "partial": "exactly-one-outcome is proved for whole runs of the model; well-formed envelope framing of what a streaming client receives is proved for well-formed backend streams (re-framing path: any split across Write calls; re-encoding path: one Write); that the rendered bytes (content type, compression flags vs. bytes, Content-Length, framing after malformed backend output) satisfy the protocol validator for every scenario is checked by validator and correspondence, not a theorem",
        "assumptions": E2E_ASSUME,
    },
    "C08": {
        "module": "Vanguard.Props.C08", "namespace": "Vanguard.C08", "streams": ["chunk"],
        "partial": "segmentation independence is proved for the primitive exact reader (io.ReadFull/CopyN over adversarial chunkings) and for the "
                   "transcoder's message reader (the sequence of enveloped request messages and its final condition); "
                   "handler read-buffer sizes are proved irrelevant for the re-encoding reader (any sizes >= 1, same bytes and final error) and splitting "
                   "the backend's output across Write calls for the re-encoding writer; read sizes and segmentation are proved irrelevant for the re-framing "
                   "reader as well (client and backend with envelopes), and so is the split of a well-formed response across Write calls for the re-framing "
                   "writer (any pieces, unbuffered client); for malformed output and buffered clients on that writer it is checked metamorphically on model and implementation",
        "assumptions": E2E_ASSUME,
    },
    "C09": {
        "module": "Vanguard.Props.C09", "namespace": "Vanguard.C09", "streams": ["envelope", "e2e", "rest"],
        "partial": "corrupt compressed payloads and undecodable payloads are covered by the per-message theorem of C01 (error, never altered data) "
                   "and by correspondence; a declared Content-Length the body does not honour is outside the in-memory harness (net/http enforces it)",
        "assumptions": E2E_ASSUME,
    },
    "C10": {
        "module": "Vanguard.Props.C10", "namespace": "Vanguard.C10", "streams": ["limits", "e2e"],
        "partial": "bytes.Buffer capacity growth and allocator behaviour are not modelled; response-side oversize delivery is covered by the "
                   "writer correspondence and the limitWriter invariant, the oracle's not-delivered check is request-side",
        "assumptions": E2E_ASSUME,
    },
    "C11": {
        "module": "Vanguard.Props.C11", "namespace": "Vanguard.C11", "streams": ["e2e", "codes", "percent", "timeout", "escape", "route", "envelope", "rest", "schema", "config"],
        "partial": "panic-freedom and termination are proved for the whole e2e model of ServeHTTP (serve_never_panics: every configuration, "
                   "request, client body and backend script); for the separate REST-translation and NewTranscoder models they are checked by the "
                   "no-panic oracle over their streams, not proved; the tie of the model to the code is the correspondence (panic=0 in every "
                   "observation, watchdog for calls that do not return); "
                   "framing by a real HTTP stack is represented by httptest.ResponseRecorder only",
        "assumptions": E2E_ASSUME,
    },
    "C13": {
        "module": "Vanguard.Props.C13", "namespace": "Vanguard.C13", "streams": ["passthru", "e2e"],
        "partial": "the Proto string of a gRPC pass-through is rewritten from HTTP/2.0 to HTTP/2 (major/minor unchanged); only major is compared",
        "assumptions": E2E_ASSUME,
    },
    "C14": {
        "module": "Vanguard.Props.C14", "namespace": "Vanguard.C14", "streams": ["conc", "history"], "race_streams": ["conc"],
        "partial": "proved: under the ownership obligations no interleaving of any number of holders ever shares a pooled buffer, and "
                   "pooled objects behave like new ones; NOT proved: that the Go code meets the obligations (checked on recorded pool "
                   "traces of real concurrent executions by the Lean trace checker) and freedom from data races on responseWriter "
                   "fields (Go memory model is outside the model; the race detector runs over the conc stream as support)",
        "assumptions": E2E_ASSUME + [
            "schedules are those the Go runtime produces for 2-8 concurrent RPCs per batch on 16 cores; they are sampled, not enumerated",
            "sync.Pool hands out only what was put into it or new objects (poolHonest)",
        ],
        "trusted_extra": ["verif pool hook (verif_hooks_on.go): records Get/Put/Wrap, poisons released buffers"],
    },
    "C15": {
        "module": "Vanguard.Props.C15", "namespace": "Vanguard.C15", "streams": ["history", "e2e", "rest"],
        "partial": "proved on the model of the pooled objects (bytes.Buffer with stale backing array, stateful compressor/decompressor): "
                   "their previous use is unobservable; that the Go code uses them only through Reset-first protocols is checked by the "
                   "history stream (every request on a long-lived and on a fresh Transcoder, hostile traffic in between), not proved; "
                   "real gzip objects are replaced by stateful fakes",
        "assumptions": E2E_ASSUME + ["garbage collection is suspended during the history stream so that sync.Pool keeps its contents"],
        "trusted_extra": ["verif pool hook (verif_hooks_on.go): records Get/Put/Wrap, poisons released buffers"],
    },
    "C16": {
        "module": "Vanguard.Props.C16", "namespace": "Vanguard.C16", "streams": ["pingpong", "e2e"],
        "partial": "response direction proved for whole runs of the model (ProgInv is an invariant of every handler script: after every handler call, "
                   "while the RPC is open and the client protocol streams, everything written on the re-encoding path is flushed and on the re-framing "
                   "path everything is flushed whenever the writer is between messages); request direction: proved for whole runs on the re-framing path "
                   "(the reader holds back nothing but part of one envelope), per Read only on the re-encoding path (no Read served from the "
                   "message in hand touches the client's body) - for whole runs Spec.reqStepOk is evaluated on the "
                   "implementation's progress logs and a lock-step client in the harness flags the first Read that would block for ever - "
                   "checked, not proved; a real HTTP/2 connection (flow control, net/http's own buffering) is replaced by a recorder whose "
                   "Flush offsets define what the client has received",
        "assumptions": E2E_ASSUME + ["unflushed bytes are invisible to the client, flushed bytes are visible at once (recorder model of the connection)"],
    },
    "C17": {
        "module": "Vanguard.Props.C17", "namespace": "Vanguard.C17", "streams": ["config"],
        "partial": "proved: selector semantics, option override, soundness of acceptance for options/duplicate methods/selectors, bindings never "
                   "answered 404; NOT proved: completeness of acceptance and that accepted tables are exactly the declared bindings (compared with "
                   "the implementation on every generated configuration: accept/reject, dumped tables, probe per binding); rules loaded from "
                   "google.api.http annotations and REST traffic through accepted configurations belong to C20/C07",
        "assumptions": [
            "the schema is the harness's fixed cfg.v1 file (3 services with prefix-related names, 9 methods, nested/repeated/message fields); "
            "the model is generic in the schema, which travels in every op line",
            "when several things are wrong Go's map iteration order decides which error is reported: the model predicts the set of possible "
            "error classes, accept/reject itself is order-independent",
            "error classes are recognised from the error text (harness/config.go classifyConfigErr)",
        ],
        "trusted_extra": ["verif hook Transcoder.VerifTables / VerifRouteMatch (read-only dump of methods and REST routes)"],
    },
    "C20": {
        "module": "Vanguard.Props.C20", "namespace": "Vanguard.C20", "streams": ["schema"],
        "partial": "proved: on every loading route the message type chosen for a method is over the declared descriptors, a resolver that "
                   "does not know a name never fails registration, the fallback chain's algebra; the configuration model is route-free by "
                   "construction. NOT modelled: protobuf-go (dynamic and generated messages of equal descriptors behave alike) and real "
                   "proto/JSON codecs - route equivalence of the traffic is a metamorphic comparison on the implementation (seven routes, "
                   "tables equal to the model's, same bytes at backend and client per request)",
        "assumptions": [
            "schemas: the repository's generated vanguard.test.v1 Library/Content services (google.api.http annotations, additional WithRules "
            "bindings), reached through the verif-only package veriftest",
            "proto bytes seen by the backend are compared after canonical re-encoding (field order in the proto wire format is not defined)",
            "vanguardgrpc.NewTranscoder is compared at the level of the tables it builds (its handler is a grpc.Server that needs real HTTP/2)",
        ],
        "trusted_extra": ["verif hook package veriftest; hook Transcoder.VerifTables / VerifRouteMatch"],
    },
    "C07": {
        "module": "Vanguard.Props.C07", "namespace": "Vanguard.C07", "streams": ["rest", "schema"],
        "partial": "proved: single-segment variables survive the URL for every byte string, multi-segment values are reassembled exactly, "
                   "ill-typed parameter texts are invalid_argument (null included), setParameter's overwrite/append semantics; NOT proved: "
                   "the whole round trip restDecode(restEncode m) = m (evaluated on every generated case by model and implementation), the "
                   "scalar text codecs and the JSON body codec (outside the model: protojson, strconv, base64); response_body / HttpBody "
                   "responses are covered by the schema stream's metamorphic traffic only; kinds modelled: string, int32, int64, bool, "
                   "nested and repeated fields (no enums, floats, bytes, wrappers, Timestamp/Duration/FieldMask in the exact comparison)",
        "assumptions": [
            "net/url's parsing of the request target and of the query string is an input of the model (the harness passes the parsed query)",
            "messages are compared as lists of populated scalar leaves; presence of an empty sub-message is not compared",
        ],
        "trusted_extra": ["verif hooks Transcoder.VerifRESTEncode / VerifRESTDecode (thin wrappers around requestLine, prepareMarshalledRequest, "
                          "route match and prepareUnmarshalledRequest)"],
    },
    "C18": {
        "module": "Vanguard.Props.C18", "namespace": "Vanguard.C18", "streams": ["e2e", "rest"],
        "partial": "no I/O after return is observed by the harness (vanguard starts no goroutine), not modelled",
        "assumptions": E2E_ASSUME,
    },
    "C06": {
        "module": "Vanguard.Props.C06",
        "namespace": "Vanguard.C06",
        "streams": ["route", "escape", "rest"],
        "partial": "",
        "assumptions": [
            "route_match_spec takes CapturesInRange (variable ranges lie inside their template) as a hypothesis; it is proved of every table "
            "built by insert from parsed templates (built_tables_capture_in_range, route_match_spec_built)",
            "net/url parsing of the request target is an input of the model (URL.Path / EscapedPath as Go computed them)",
        ],
    },
    "C12": {
        "module": "Vanguard.Props.C12e2e",      # imports Vanguard.Props.C12 (codec theorems); same namespace
        "namespace": "Vanguard.C12",
        "streams": ["timeout", "e2e"],
        "partial": "REST X-Server-Timeout legs (float64 arithmetic) are outside the Lean model (REST clients and REST targets are not in the e2e model); "
                   "for the RPC protocols the way of the timeout through ServeHTTP is proved (Props/C12e2e.lean) and checked by oracleC12 on the e2e stream",
        "assumptions": [
            "strconv.ParseInt/FormatInt are modelled explicitly (Model/Decimal.lean) and cross-checked by the parse_int64/format_int ops",
        ],
    },
    "C04": {
        "module": "Vanguard.Props.C04e2e",      # imports Vanguard.Props.C04 (leaf theorems); same namespace
        "namespace": "Vanguard.C04",
        "streams": ["codes", "percent", "e2e"],
        "partial": "the relay of an RPC error through the response path (first reported end = what the client reads, final; sources: backend trailers, "
                   "response head, end-of-stream message, the transcoder itself) is proved for gRPC, gRPC-Web, Connect-streaming and unary Connect clients in every "
                   "state a handler script can reach (a unary client's head is proved never to go out while the RPC is open); REST clients and the "
                   "encodings of details (JSON, base64, protobuf Any) are outside the theorems",
        "assumptions": [
            "JSON / protobuf / base64 encodings of error details are external (round-trip assumed, exercised by e2e stream)",
        ],
    },
    "C19": {
        "module": "Vanguard.Props.C19", "namespace": "Vanguard.C19", "streams": ["getpost", "e2e", "schema"],
        "partial": "",
        "assumptions": E2E_ASSUME + ["url.Values.Encode / url.ParseQuery / base64 are modelled explicitly (Handle.lean) and cross-checked by the streams"],
    },
}
