package main

// Schema-loading stream (C20): the repository's generated test services (vanguard.test.v1, REST
// annotations included) are registered through every route NewTranscoder offers - by name from
// generated code, by descriptor from the global registry, from a freshly built file, from a
// descriptor set whose google.api.http options are dynamic messages, with a resolver that knows no
// type at all, without a parent file, and through vanguardgrpc - and must behave alike: same
// tables, same routing of every probe, same bytes at the backend and at the client for the same
// request.

import (
	"bytes"
	"compress/gzip"
	"encoding/base64"
	"encoding/binary"
	"encoding/hex"
	"encoding/json"
	"fmt"
	"io"
	"math/rand/v2"
	"net/http"
	"net/http/httptest"
	"net/url"
	"os"
	"runtime/debug"
	"sort"
	"strconv"
	"strings"
	"sync"

	"connectrpc.com/vanguard"
	"connectrpc.com/vanguard/vanguardgrpc"
	"connectrpc.com/vanguard/veriftest"
	"google.golang.org/genproto/googleapis/api/annotations"
	"google.golang.org/protobuf/proto"
	"google.golang.org/protobuf/reflect/protodesc"
	"google.golang.org/protobuf/reflect/protoreflect"
	"google.golang.org/protobuf/reflect/protoregistry"
	"google.golang.org/protobuf/types/descriptorpb"
	"google.golang.org/protobuf/types/dynamicpb"
	"google.golang.org/protobuf/types/known/anypb"
)

var schemaRoutes = []string{"generated", "global-desc", "fresh-file", "dynamic-options", "no-types-resolver", "no-parent"}

type emptyResolver struct{}

func (emptyResolver) FindMessageByName(protoreflect.FullName) (protoreflect.MessageType, error) {
	return nil, protoregistry.NotFound
}
func (emptyResolver) FindMessageByURL(string) (protoreflect.MessageType, error) {
	return nil, protoregistry.NotFound
}
func (emptyResolver) FindExtensionByName(protoreflect.FullName) (protoreflect.ExtensionType, error) {
	return nil, protoregistry.NotFound
}
func (emptyResolver) FindExtensionByNumber(protoreflect.FullName, protoreflect.FieldNumber) (protoreflect.ExtensionType, error) {
	return nil, protoregistry.NotFound
}

type noParentService struct{ protoreflect.ServiceDescriptor }

func (noParentService) ParentFile() protoreflect.FileDescriptor { return nil }

func globalService(name string) protoreflect.ServiceDescriptor {
	d, err := protoregistry.GlobalFiles.FindDescriptorByName(protoreflect.FullName(name))
	if err != nil {
		panic(err)
	}
	return d.(protoreflect.ServiceDescriptor)
}

// freshService rebuilds the service's file (and nothing else) from its descriptor proto.
func freshService(name string) protoreflect.ServiceDescriptor {
	svc := globalService(name)
	fdp := protodesc.ToFileDescriptorProto(svc.ParentFile())
	file, err := protodesc.NewFile(fdp, protoregistry.GlobalFiles)
	if err != nil {
		panic(err)
	}
	return file.Services().ByName(svc.Name())
}

// dynamicService loads the file the way a descriptor set produced by a compiler is loaded: into a
// registry of its own, with extensions resolved against that registry, so the google.api.http
// options are dynamic messages and not *annotations.HttpRule values.
func dynamicService(name string) protoreflect.ServiceDescriptor {
	svc := globalService(name)
	files := new(protoregistry.Files)
	var add func(fd protoreflect.FileDescriptor, asBytes bool) protoreflect.FileDescriptor
	built := map[string]protoreflect.FileDescriptor{}
	add = func(fd protoreflect.FileDescriptor, top bool) protoreflect.FileDescriptor {
		if f, ok := built[fd.Path()]; ok {
			return f
		}
		imports := fd.Imports()
		for i := 0; i < imports.Len(); i++ {
			add(imports.Get(i).FileDescriptor, false)
		}
		fdp := protodesc.ToFileDescriptorProto(fd)
		if top {
			raw, err := proto.Marshal(fdp)
			if err != nil {
				panic(err)
			}
			fdp = &descriptorpb.FileDescriptorProto{}
			if err := (proto.UnmarshalOptions{Resolver: dynamicpb.NewTypes(files)}).Unmarshal(raw, fdp); err != nil {
				panic(err)
			}
		}
		f, err := protodesc.NewFile(fdp, files)
		if err != nil {
			panic(err)
		}
		if err := files.RegisterFile(f); err != nil {
			panic(err)
		}
		built[fd.Path()] = f
		return f
	}
	file := add(svc.ParentFile(), true)
	return file.Services().ByName(svc.Name())
}

// dynamicOptionsAreDynamic reports whether the http option of the dynamic service really is a
// dynamic message (the generator checks its own premise).
func dynamicOptionsAreDynamic(svc protoreflect.ServiceDescriptor) bool {
	for i := 0; i < svc.Methods().Len(); i++ {
		opts := svc.Methods().Get(i).Options().ProtoReflect()
		ext := annotations.E_Http.TypeDescriptor()
		if opts.Has(ext) {
			_, typed := opts.Get(ext).Message().Interface().(*annotations.HttpRule)
			return !typed
		}
	}
	return false
}

type schemaBackend struct {
	mu   sync.Mutex
	seen []string
	resp map[string][]byte // method path -> response message (proto)
	// errBody, when set, is sent as a Connect unary error instead
	errBody string
}

func (b *schemaBackend) ServeHTTP(w http.ResponseWriter, r *http.Request) {
	body, _ := io.ReadAll(r.Body)
	query := r.URL.RawQuery
	if r.Method == http.MethodGet {
		// Connect GET: the message travels base64-encoded in the query string
		q := r.URL.Query()
		if raw, err := base64.RawURLEncoding.DecodeString(strings.TrimRight(q.Get("message"), "=")); err == nil {
			body = raw
			q.Del("message")
			query = q.Encode()
		}
	}
	// the byte order of fields in the proto encoding is not defined (dynamic messages write them in
	// another order than generated ones): compare the message, i.e. its canonical re-encoding
	body = canonProto(r.URL.Path, body)
	flag := ""
	if r.Method == http.MethodGet && len(r.URL.Path)+1+len(r.URL.RawQuery) > schemaMaxGetURL {
		flag = " GET-URL-OVER-LIMIT"
	}
	b.mu.Lock()
	b.seen = append(b.seen, fmt.Sprintf("%s %s %s ct=%s %s%s", r.Method, r.URL.Path, query, r.Header.Get("Content-Type"), hex.EncodeToString(body), flag))
	resp := b.resp[r.URL.Path]
	errBody := b.errBody
	b.mu.Unlock()
	if errBody != "" {
		// a Connect unary error (with details whose Any types the codec has to resolve)
		w.Header().Set("Content-Type", "application/json")
		w.WriteHeader(404)
		_, _ = w.Write([]byte(errBody))
		return
	}
	w.Header().Set("Content-Type", "application/proto")
	w.WriteHeader(200)
	_, _ = w.Write(resp)
}

// canonProto re-encodes the request message of the method at path deterministically.
func canonProto(path string, data []byte) []byte {
	parts := strings.Split(strings.TrimPrefix(path, "/"), "/")
	if len(parts) != 2 {
		return data
	}
	d, err := protoregistry.GlobalFiles.FindDescriptorByName(protoreflect.FullName(parts[0] + "." + parts[1]))
	if err != nil {
		return data
	}
	md, ok := d.(protoreflect.MethodDescriptor)
	if !ok {
		return data
	}
	m := dynamicpb.NewMessage(md.Input())
	if err := proto.Unmarshal(data, m); err != nil {
		return append([]byte("UNPARSABLE:"), data...)
	}
	out, err := proto.MarshalOptions{Deterministic: true}.Marshal(m)
	if err != nil {
		return data
	}
	return out
}

// schemaMaxGetURL: the longest URL the Connect backend may be sent with GET.
const schemaMaxGetURL = 300

var schemaSvcNames = []string{veriftest.LibraryServiceName, veriftest.ContentServiceName}

func buildSchemaTranscoder(route string, backend http.Handler, rules []*annotations.HttpRule) (*vanguard.Transcoder, error) {
	opts := []vanguard.ServiceOption{vanguard.WithTargetProtocols(vanguard.ProtocolConnect), vanguard.WithTargetCodecs("proto"), vanguard.WithNoTargetCompression(),
		vanguard.WithMaxGetURLBytes(schemaMaxGetURL)}
	var svcs []*vanguard.Service
	for _, name := range schemaSvcNames {
		switch route {
		case "generated":
			svcs = append(svcs, vanguard.NewService(name, backend, opts...))
		case "global-desc":
			svcs = append(svcs, vanguard.NewServiceWithSchema(globalService(name), backend, opts...))
		case "fresh-file":
			svcs = append(svcs, vanguard.NewServiceWithSchema(freshService(name), backend, opts...))
		case "dynamic-options":
			svcs = append(svcs, vanguard.NewServiceWithSchema(dynamicService(name), backend, opts...))
		case "no-types-resolver":
			svcs = append(svcs, vanguard.NewServiceWithSchema(freshService(name), backend, append(opts, vanguard.WithTypeResolver(emptyResolver{}))...))
		case "no-parent":
			svcs = append(svcs, vanguard.NewServiceWithSchema(noParentService{freshService(name)}, backend, opts...))
		}
	}
	var topts []vanguard.TranscoderOption
	if len(rules) > 0 {
		topts = append(topts, vanguard.WithRules(rules...))
	}
	return vanguard.NewTranscoder(svcs, topts...)
}

func renderTables(t *vanguard.Transcoder, probes [][2]string) string {
	var sb strings.Builder
	for _, m := range t.VerifTables() {
		ps := make([]string, len(m.Protocols))
		for i, p := range m.Protocols {
			ps[i] = fmt.Sprint(p)
		}
		fmt.Fprintf(&sb, " M{%s|%s|%s|%s|%s|%d|%d|%s|%s|%s|%s}", m.Path, strings.Join(ps, ","), strings.Join(m.Codecs, ","), m.PreferredCodec,
			strings.Join(m.Compressors, ","), m.MaxMsg, m.MaxGet, m.RuleMethod, hs(m.RulePattern), m.RuleBody, m.RuleRespBody)
	}
	for _, p := range probes {
		mp, body, resp, vars, found := t.VerifRouteMatch(p[1], p[0])
		if !found {
			sb.WriteString(" P{none}")
			continue
		}
		fmt.Fprintf(&sb, " P{%s|%s|%s|%s}", mp, body, resp, hs(strings.Join(vars, "&")))
	}
	return sb.String()
}

// ---- the schema as data for the model (fields, methods, annotation bindings) ----

func schemaAsConfig(extraRules []cfgRule, probes [][2]string) *cfgConfig {
	c := &cfgConfig{}
	c.Schema.Messages = map[string][]cfgField{}
	var addMsg func(md protoreflect.MessageDescriptor)
	addMsg = func(md protoreflect.MessageDescriptor) {
		name := string(md.FullName())
		if _, ok := c.Schema.Messages[name]; ok {
			return
		}
		c.Schema.Messages[name] = nil
		var fs []cfgField
		for i := 0; i < md.Fields().Len(); i++ {
			f := md.Fields().Get(i)
			cf := cfgField{Name: string(f.Name()), Repeated: f.IsList(), IsMap: f.IsMap()}
			if f.Message() != nil {
				cf.Message = string(f.Message().FullName())
				addMsg(f.Message())
			}
			fs = append(fs, cf)
		}
		c.Schema.Messages[name] = fs
	}
	for _, name := range schemaSvcNames {
		svc := globalService(name)
		cs := cfgService{Name: name}
		for i := 0; i < svc.Methods().Len(); i++ {
			m := svc.Methods().Get(i)
			addMsg(m.Input())
			addMsg(m.Output())
			cs.Methods = append(cs.Methods, cfgMethod{Name: string(m.Name()), In: string(m.Input().FullName()), Out: string(m.Output().FullName())})
			if rule, ok := proto.GetExtension(m.Options(), annotations.E_Http).(*annotations.HttpRule); ok && rule != nil {
				r := cfgRule{Selector: name + "." + string(m.Name()), cfgBinding: bindingOfRule(rule)}
				for _, a := range rule.GetAdditionalBindings() {
					r.Additional = append(r.Additional, bindingOfRule(a))
				}
				c.Rules = append(c.Rules, r)
			}
		}
		c.Schema.Services = append(c.Schema.Services, cs)
		c.Services = append(c.Services, cfgSvcReg{Svc: name, Opts: []cfgOpt{
			{Kind: "protocols", Nums: []int{1}}, {Kind: "codecs", Names: []string{"proto"}}, {Kind: "compress", Names: []string{}}, {Kind: "maxGet", N: schemaMaxGetURL}}})
	}
	c.KnownCodecs, c.KnownCompressors = []string{"json", "proto"}, []string{"gzip"}
	c.Rules = append(c.Rules, extraRules...)
	c.Probes = probes
	return c
}

func bindingOfRule(r *annotations.HttpRule) cfgBinding {
	b := cfgBinding{Body: r.GetBody(), Resp: r.GetResponseBody(), Kind: "none"}
	switch p := r.GetPattern().(type) {
	case *annotations.HttpRule_Get:
		b.Kind, b.Path = "get", p.Get
	case *annotations.HttpRule_Put:
		b.Kind, b.Path = "put", p.Put
	case *annotations.HttpRule_Post:
		b.Kind, b.Path = "post", p.Post
	case *annotations.HttpRule_Delete:
		b.Kind, b.Path = "delete", p.Delete
	case *annotations.HttpRule_Patch:
		b.Kind, b.Path = "patch", p.Patch
	case *annotations.HttpRule_Custom:
		b.Kind, b.Path = "custom:"+p.Custom.GetKind(), p.Custom.GetPath()
	}
	return b
}

// ---- requests ----

type schemaReq struct {
	Method  string `json:"method"`
	Target  string `json:"target"` // path?query
	CT      string `json:"ct"`
	Body    string `json:"body"` // hex
	RespFor string `json:"respFor"`
	Resp    string `json:"resp"` // hex proto the backend answers with
	ErrBody string `json:"errBody,omitempty"`
	// GRPCMode (schema_rest_grpc): how the gRPC stub behaves
	GRPCMode string `json:"grpcMode,omitempty"`
}

func runSchemaReq(t *vanguard.Transcoder, backend *schemaBackend, rq *schemaReq) string {
	backend.mu.Lock()
	backend.seen = nil
	backend.resp = map[string][]byte{rq.RespFor: unhx(rq.Resp)}
	backend.errBody = rq.ErrBody
	backend.mu.Unlock()
	u, err := url.ParseRequestURI(rq.Target)
	if err != nil {
		return "bad-url"
	}
	req := httptest.NewRequest(rq.Method, "http://example.test"+rq.Target, bytes.NewReader(unhx(rq.Body)))
	req.URL = u
	req.RequestURI = rq.Target
	if rq.CT != "" {
		req.Header.Set("Content-Type", rq.CT)
	}
	rec := httptest.NewRecorder()
	panicked := false
	func() {
		defer func() {
			if r := recover(); r != nil {
				panicked = true
				if os.Getenv("VERIF_DEBUG") != "" {
					fmt.Fprintf(os.Stderr, "panic: %v\n%s\n", r, debug.Stack())
				}
			}
		}()
		t.ServeHTTP(rec, req)
	}()
	res := rec.Result()
	backend.mu.Lock()
	seen := strings.Join(backend.seen, ";")
	backend.mu.Unlock()
	out := fmt.Sprintf("backend[%s] status=%d ct=%s body=%s", seen, res.StatusCode, res.Header.Get("Content-Type"), hex.EncodeToString(rec.Body.Bytes()))
	if panicked {
		out += " PANIC"
	}
	return strings.ReplaceAll(out, " ", "_")
}

var schemaCache = map[string]*struct {
	t *vanguard.Transcoder
	b *schemaBackend
}{}

func schemaTranscoder(route string) (*vanguard.Transcoder, *schemaBackend, error) {
	if e, ok := schemaCache[route]; ok {
		return e.t, e.b, nil
	}
	b := &schemaBackend{}
	t, err := buildSchemaTranscoder(route, b, nil)
	if err != nil {
		return nil, nil, err
	}
	schemaCache[route] = &struct {
		t *vanguard.Transcoder
		b *schemaBackend
	}{t, b}
	return t, b, nil
}

func init() {
	// schema_tables <cfg>: the tables and probe routing of every loading route (and of vanguardgrpc
	// against its by-name equivalent); printed once when they all agree
	executors["schema_tables"] = func(a []string) string {
		raw, err := hex.DecodeString(a[0])
		if err != nil {
			return "bad-op"
		}
		c := &cfgConfig{}
		if err := json.Unmarshal(raw, c); err != nil {
			return "bad-op"
		}
		var extra []*annotations.HttpRule
		for _, r := range c.Rules {
			if r.Extra {
				hr := r.cfgBinding.rule()
				hr.Selector = r.Selector
				for _, ab := range r.Additional {
					hr.AdditionalBindings = append(hr.AdditionalBindings, ab.rule())
				}
				extra = append(extra, hr)
			}
		}
		first := ""
		for _, route := range schemaRoutes {
			t, err := buildSchemaTranscoder(route, http.NotFoundHandler(), extra)
			res := "reject"
			if err == nil {
				res = "accept" + renderTables(t, c.Probes)
			}
			if first == "" {
				first = res
			} else if res != first {
				return "DIFF route=" + route + " " + res[:min(len(res), 300)]
			}
		}
		return first
	}
	// schema_grpc: vanguardgrpc.NewTranscoder against the same services registered by name with
	// the defaults it documents
	executors["schema_grpc"] = func(a []string) string {
		server := veriftest.NewGRPCServer()
		t1, err1 := vanguardgrpc.NewTranscoder(server)
		var svcs []*vanguard.Service
		for _, name := range schemaSvcNames {
			svcs = append(svcs, vanguard.NewService(name, server))
		}
		t2, err2 := vanguard.NewTranscoder(svcs, vanguard.WithDefaultServiceOptions(
			vanguard.WithTargetCodecs(vanguard.CodecProto), vanguard.WithTargetProtocols(vanguard.ProtocolGRPC)))
		if err1 != nil || err2 != nil {
			return fmt.Sprintf("errors %v %v", err1 != nil, err2 != nil)
		}
		r1, r2 := renderTables(t1, nil), renderTables(t2, nil)
		if r1 != r2 {
			return "DIFF"
		}
		return "same " + fmt.Sprint(len(t1.VerifTables())) + " methods"
	}
	// schema_req <req>: one request through every loading route
	executors["schema_req"] = func(a []string) string {
		raw, err := hex.DecodeString(a[0])
		if err != nil {
			return "bad-op"
		}
		rq := &schemaReq{}
		if err := json.Unmarshal(raw, rq); err != nil {
			return "bad-op"
		}
		first := ""
		for _, route := range schemaRoutes {
			if route == "no-types-resolver" && rq.ErrBody != "" {
				// a resolver that knows no type cannot render the Any values of error details:
				// what the user asked for, not a difference of schema loading
				continue
			}
			t, b, err := schemaTranscoder(route)
			if err != nil {
				return "config-rejected route=" + route
			}
			res := runSchemaReq(t, b, rq)
			if first == "" {
				first = res
			} else if res != first {
				return "DIFF route=" + route + " " + res[:min(len(res), 400)] + " <> " + first[:min(len(first), 400)]
			}
		}
		return first
	}
	// schema_rest_grpc <req>: a REST client in front of a gRPC backend that announces gzip and answers
	// with a message, an error in the headers, or an error after a message; the client's response
	// must be valid for a REST client whatever the backend did
	executors["schema_rest_grpc"] = func(a []string) string {
		raw, err := hex.DecodeString(a[0])
		if err != nil {
			return "bad-op"
		}
		rq := &schemaReq{}
		if err := json.Unmarshal(raw, rq); err != nil {
			return "bad-op"
		}
		if schemaGRPC == nil {
			b := &grpcStub{}
			var svcs []*vanguard.Service
			for _, name := range schemaSvcNames {
				svcs = append(svcs, vanguard.NewService(name, b, vanguard.WithTargetProtocols(vanguard.ProtocolGRPC), vanguard.WithTargetCodecs("proto")))
			}
			t, err := vanguard.NewTranscoder(svcs)
			if err != nil {
				return "config-rejected"
			}
			schemaGRPC = &struct {
				t *vanguard.Transcoder
				b *grpcStub
			}{t, b}
		}
		schemaGRPC.b.mode, schemaGRPC.b.resp = rq.GRPCMode, unhx(rq.Resp)
		u, err := url.ParseRequestURI(rq.Target)
		if err != nil {
			return "bad-url"
		}
		req := httptest.NewRequest(rq.Method, "http://example.test/", bytes.NewReader(unhx(rq.Body)))
		req.URL, req.RequestURI = u, rq.Target
		if rq.CT != "" {
			req.Header.Set("Content-Type", rq.CT)
		}
		req.Header.Set("Accept-Encoding", "gzip")
		rec := httptest.NewRecorder()
		schemaGRPC.t.ServeHTTP(rec, req)
		res := rec.Result()
		body := rec.Body.Bytes()
		verdict := "valid"
		if enc := res.Header.Get("Content-Encoding"); enc != "" && enc != "identity" {
			zr, err := gzip.NewReader(bytes.NewReader(body))
			if err != nil {
				verdict = "BAD-RESPONSE:content-encoding-" + enc + "-but-body-is-not"
			} else if plain, err := io.ReadAll(zr); err != nil {
				verdict = "BAD-RESPONSE:content-encoding-" + enc + "-but-body-is-corrupt"
			} else {
				body = plain
			}
		}
		if verdict == "valid" && strings.HasPrefix(res.Header.Get("Content-Type"), "application/json") && len(body) > 0 && !json.Valid(body) {
			verdict = "BAD-RESPONSE:body-is-not-json"
		}
		if verdict == "valid" && res.StatusCode != 200 && strings.HasPrefix(res.Header.Get("Content-Type"), "application/json") {
			var st struct {
				Code *int `json:"code"`
			}
			if json.Unmarshal(body, &st) != nil || st.Code == nil {
				verdict = "BAD-RESPONSE:error-without-status-body"
			}
		}
		return fmt.Sprintf("status=%d mode=%s %s", res.StatusCode, rq.GRPCMode, verdict)
	}
	// schema_ext <n>: a proto2 schema with an extension field that exists only as descriptors (loaded
	// the way a descriptor set is): a proto client in front of a JSON-only backend; the extension field
	// set by the client must be in the backend's JSON, the one set by the backend in the client's proto
	executors["schema_ext"] = func(a []string) string {
		defer func() { _ = recover() }()
		ext := extSchema()
		item := ext.file.Messages().ByName("Item")
		types := dynamicpb.NewTypes(extFiles(ext.file))
		xt, err := types.FindExtensionByName("verif.ext.tag")
		if err != nil {
			return "setup-error " + err.Error()
		}
		reqMsg := dynamicpb.NewMessage(item)
		reqMsg.Set(item.Fields().ByName("name"), protoreflect.ValueOfString("n"+a[0]))
		reqMsg.Set(xt.TypeDescriptor(), protoreflect.ValueOfString("t"+a[0]))
		body, _ := proto.Marshal(reqMsg)
		var backendJSON []byte
		backend := http.HandlerFunc(func(w http.ResponseWriter, r *http.Request) {
			backendJSON, _ = io.ReadAll(r.Body)
			w.Header().Set("Content-Type", "application/json")
			_, _ = w.Write([]byte(`{"name":"r` + a[0] + `","[verif.ext.tag]":"x` + a[0] + `"}`))
		})
		t, err := vanguard.NewTranscoder([]*vanguard.Service{vanguard.NewServiceWithSchema(ext.svc, backend,
			vanguard.WithTargetProtocols(vanguard.ProtocolConnect), vanguard.WithTargetCodecs("json"), vanguard.WithNoTargetCompression())})
		if err != nil {
			return "config-rejected " + err.Error()
		}
		req := httptest.NewRequest("POST", "http://example.test/verif.ext.ExtSvc/Echo", bytes.NewReader(body))
		req.Header.Set("Content-Type", "application/proto")
		req.Header.Set("Connect-Protocol-Version", "1")
		rec := httptest.NewRecorder()
		t.ServeHTTP(rec, req)
		reqExt := strings.Contains(string(backendJSON), `"[verif.ext.tag]":"t`+a[0]+`"`)
		respMsg := dynamicpb.NewMessage(item)
		respExt := false
		if rec.Code == 200 {
			if err := (proto.UnmarshalOptions{Resolver: types}).Unmarshal(rec.Body.Bytes(), respMsg); err == nil {
				respExt = respMsg.Has(xt.TypeDescriptor()) && respMsg.Get(xt.TypeDescriptor()).String() == "x"+a[0]
			}
		}
		return fmt.Sprintf("status=%d req-ext=%v resp-ext=%v", rec.Code, reqExt, respExt)
	}
	// schema_rev <n>: a revised copy of the library schema (same file path as the generated code that is
	// linked in, one more message `Extra`, one more field `Book.extra` of type Any) loaded as descriptors:
	// a JSON client in front of a proto backend whose answer carries an `Extra` inside the Any.  The
	// client's JSON must show it: what counts is the loaded schema, not what else is linked in.
	executors["schema_rev"] = func(a []string) string {
		defer func() { _ = recover() }()
		file, err := revisedLibrary()
		if err != nil {
			return "setup-error " + err.Error()
		}
		svc := file.Services().ByName("LibraryService")
		book, extra := file.Messages().ByName("Book"), file.Messages().ByName("Extra")
		backend := http.HandlerFunc(func(w http.ResponseWriter, r *http.Request) {
			_, _ = io.ReadAll(r.Body)
			x := dynamicpb.NewMessage(extra)
			x.Set(extra.Fields().ByName("note"), protoreflect.ValueOfString("note"+a[0]))
			xb, _ := proto.Marshal(x)
			b := dynamicpb.NewMessage(book)
			b.Set(book.Fields().ByName("title"), protoreflect.ValueOfString("t"+a[0]))
			anyMsg := b.Mutable(book.Fields().ByName("extra")).Message()
			anyMsg.Set(anyMsg.Descriptor().Fields().ByName("type_url"), protoreflect.ValueOfString("type.googleapis.com/vanguard.test.v1.Extra"))
			anyMsg.Set(anyMsg.Descriptor().Fields().ByName("value"), protoreflect.ValueOfBytes(xb))
			out, _ := proto.Marshal(b)
			w.Header().Set("Content-Type", "application/proto")
			_, _ = w.Write(out)
		})
		t, err := vanguard.NewTranscoder([]*vanguard.Service{vanguard.NewServiceWithSchema(svc, backend,
			vanguard.WithTargetProtocols(vanguard.ProtocolConnect), vanguard.WithTargetCodecs("proto"), vanguard.WithNoTargetCompression())})
		if err != nil {
			return "config-rejected " + err.Error()
		}
		req := httptest.NewRequest("POST", "http://example.test/vanguard.test.v1.LibraryService/GetBook", strings.NewReader(`{"name":"shelves/1/books/`+a[0]+`"}`))
		req.Header.Set("Content-Type", "application/json")
		req.Header.Set("Connect-Protocol-Version", "1")
		rec := httptest.NewRecorder()
		t.ServeHTTP(rec, req)
		var got struct {
			Title string `json:"title"`
			Extra struct {
				Type string `json:"@type"`
				Note string `json:"note"`
			} `json:"extra"`
		}
		_ = json.Unmarshal(rec.Body.Bytes(), &got)
		return fmt.Sprintf("status=%d title=%v any=%v", rec.Code, got.Title == "t"+a[0],
			got.Extra.Note == "note"+a[0] && strings.HasSuffix(got.Extra.Type, "/vanguard.test.v1.Extra"))
	}
	// schema_mixed <n>: a freshly built copy of the library schema with one more method whose request type lives
	// in a file every copy shares (google.protobuf.Empty) and whose response type lives in the fresh file, bound
	// with a response_body; registered once with the default resolver and once with a resolver that knows the
	// message names from another copy of the schema (the linked-in Go types).  The REST call must be answered
	// alike, and as the schema says.
	executors["schema_mixed"] = func(a []string) string {
		svc, err := mixedLibrary()
		if err != nil {
			return "setup-error " + err.Error()
		}
		file := svc.ParentFile()
		resp, checkout := file.Messages().ByName("ListCheckoutsResponse"), file.Messages().ByName("Checkout")
		n, _ := strconv.Atoi(a[0])
		backend := http.HandlerFunc(func(w http.ResponseWriter, r *http.Request) {
			_, _ = io.ReadAll(r.Body)
			m := dynamicpb.NewMessage(resp)
			c := dynamicpb.NewMessage(checkout)
			c.Set(checkout.Fields().ByName("id"), protoreflect.ValueOfUint64(uint64(n)+7))
			m.Mutable(resp.Fields().ByName("checkouts")).List().Append(protoreflect.ValueOfMessage(c))
			out, _ := proto.Marshal(m)
			w.Header().Set("Content-Type", "application/proto")
			_, _ = w.Write(out)
		})
		serve := func(opts ...vanguard.ServiceOption) (res string) {
			defer func() {
				if r := recover(); r != nil {
					res = "PANIC"
				}
			}()
			opts = append([]vanguard.ServiceOption{vanguard.WithTargetProtocols(vanguard.ProtocolConnect), vanguard.WithTargetCodecs("proto"),
				vanguard.WithNoTargetCompression()}, opts...)
			t, err := vanguard.NewTranscoder([]*vanguard.Service{vanguard.NewServiceWithSchema(svc, backend, opts...)})
			if err != nil {
				return "config-rejected"
			}
			rec := httptest.NewRecorder()
			t.ServeHTTP(rec, httptest.NewRequest("GET", "http://example.test/v2/allcheckouts", http.NoBody))
			return fmt.Sprintf("%d:%s", rec.Code, strings.Join(strings.Fields(rec.Body.String()), ""))
		}
		dflt, global := serve(), serve(vanguard.WithTypeResolver(protoregistry.GlobalTypes))
		return fmt.Sprintf("status=%s same=%v ok=%v", strings.SplitN(dflt, ":", 2)[0], dflt == global,
			strings.Contains(dflt, fmt.Sprintf(`"id":"%d"`, n+7)) && strings.HasPrefix(strings.SplitN(dflt+":", ":", 2)[1], "["))
	}
	streams["schema"] = streamSchema
}

var mixedLibraryOnce protoreflect.ServiceDescriptor

// mixedLibrary: the library schema rebuilt from its descriptor proto plus
// `rpc ListAllCheckouts(google.protobuf.Empty) returns (ListCheckoutsResponse)` bound to GET /v2/allcheckouts
// with response_body "checkouts".
func mixedLibrary() (protoreflect.ServiceDescriptor, error) {
	if mixedLibraryOnce != nil {
		return mixedLibraryOnce, nil
	}
	d, err := protoregistry.GlobalFiles.FindDescriptorByName(protoreflect.FullName(veriftest.LibraryServiceName))
	if err != nil {
		return nil, err
	}
	fdp := proto.Clone(protodesc.ToFileDescriptorProto(d.ParentFile())).(*descriptorpb.FileDescriptorProto)
	opts := &descriptorpb.MethodOptions{}
	proto.SetExtension(opts, annotations.E_Http, &annotations.HttpRule{Pattern: &annotations.HttpRule_Get{Get: "/v2/allcheckouts"}, ResponseBody: "checkouts"})
	str := func(s string) *string { return &s }
	for _, sv := range fdp.Service {
		if sv.GetName() == string(d.Name()) {
			sv.Method = append(sv.Method, &descriptorpb.MethodDescriptorProto{Name: str("ListAllCheckouts"), InputType: str(".google.protobuf.Empty"),
				OutputType: str(".vanguard.test.v1.ListCheckoutsResponse"), Options: opts})
		}
	}
	f, err := protodesc.NewFile(fdp, protoregistry.GlobalFiles)
	if err != nil {
		return nil, err
	}
	mixedLibraryOnce = f.Services().ByName(d.Name())
	return mixedLibraryOnce, nil
}

var revisedLibraryOnce protoreflect.FileDescriptor

// revisedLibrary: the linked-in library schema plus `message Extra { string note = 1; }` and
// `google.protobuf.Any extra = 90;` in Book, under the same file path.
func revisedLibrary() (protoreflect.FileDescriptor, error) {
	if revisedLibraryOnce != nil {
		return revisedLibraryOnce, nil
	}
	d, err := protoregistry.GlobalFiles.FindDescriptorByName(protoreflect.FullName(veriftest.LibraryServiceName))
	if err != nil {
		return nil, err
	}
	fdp := protodesc.ToFileDescriptorProto(d.ParentFile())
	str := func(s string) *string { return &s }
	i32 := func(i int32) *int32 { return &i }
	opt := descriptorpb.FieldDescriptorProto_LABEL_OPTIONAL
	tstr, tmsg := descriptorpb.FieldDescriptorProto_TYPE_STRING, descriptorpb.FieldDescriptorProto_TYPE_MESSAGE
	hasAny := false
	for _, dep := range fdp.Dependency {
		hasAny = hasAny || dep == "google/protobuf/any.proto"
	}
	if !hasAny {
		fdp.Dependency = append(fdp.Dependency, "google/protobuf/any.proto")
	}
	fdp.MessageType = append(fdp.MessageType, &descriptorpb.DescriptorProto{Name: str("Extra"),
		Field: []*descriptorpb.FieldDescriptorProto{{Name: str("note"), Number: i32(1), Label: &opt, Type: &tstr, JsonName: str("note")}}})
	for _, m := range fdp.MessageType {
		if m.GetName() == "Book" {
			m.Field = append(m.Field, &descriptorpb.FieldDescriptorProto{Name: str("extra"), Number: i32(90), Label: &opt, Type: &tmsg,
				TypeName: str(".google.protobuf.Any"), JsonName: str("extra")})
		}
	}
	_ = anypb.File_google_protobuf_any_proto // make sure any.proto is linked in
	f, err := protodesc.NewFile(fdp, protoregistry.GlobalFiles)
	if err != nil {
		return nil, err
	}
	revisedLibraryOnce = f
	return f, nil
}

type extSchemaT struct {
	file protoreflect.FileDescriptor
	svc  protoreflect.ServiceDescriptor
}

var extSchemaOnce *extSchemaT

func extFiles(f protoreflect.FileDescriptor) *protoregistry.Files {
	files := new(protoregistry.Files)
	_ = files.RegisterFile(f)
	return files
}

// extSchema builds, from a descriptor proto only, the file
//
//	syntax = "proto2"; package verif.ext;
//	message Item { optional string name = 1; extensions 100 to 199; }
//	extend Item { optional string tag = 100; }
//	service ExtSvc { rpc Echo(Item) returns (Item); }
func extSchema() *extSchemaT {
	if extSchemaOnce != nil {
		return extSchemaOnce
	}
	str := func(s string) *string { return &s }
	i32 := func(i int32) *int32 { return &i }
	opt := descriptorpb.FieldDescriptorProto_LABEL_OPTIONAL
	tstr := descriptorpb.FieldDescriptorProto_TYPE_STRING
	fdp := &descriptorpb.FileDescriptorProto{
		Name: str("verif/ext.proto"), Package: str("verif.ext"), Syntax: str("proto2"),
		MessageType: []*descriptorpb.DescriptorProto{{
			Name:           str("Item"),
			Field:          []*descriptorpb.FieldDescriptorProto{{Name: str("name"), Number: i32(1), Label: &opt, Type: &tstr, JsonName: str("name")}},
			ExtensionRange: []*descriptorpb.DescriptorProto_ExtensionRange{{Start: i32(100), End: i32(200)}},
		}},
		Extension: []*descriptorpb.FieldDescriptorProto{{Name: str("tag"), Number: i32(100), Label: &opt, Type: &tstr, Extendee: str(".verif.ext.Item"), JsonName: str("tag")}},
		Service: []*descriptorpb.ServiceDescriptorProto{{
			Name:   str("ExtSvc"),
			Method: []*descriptorpb.MethodDescriptorProto{{Name: str("Echo"), InputType: str(".verif.ext.Item"), OutputType: str(".verif.ext.Item")}},
		}},
	}
	file, err := protodesc.NewFile(fdp, new(protoregistry.Files))
	if err != nil {
		panic(err)
	}
	extSchemaOnce = &extSchemaT{file: file, svc: file.Services().ByName("ExtSvc")}
	return extSchemaOnce
}

var schemaGRPC *struct {
	t *vanguard.Transcoder
	b *grpcStub
}

// grpcStub is a hand-written gRPC backend: it announces gzip and answers according to mode.
type grpcStub struct {
	mode string
	resp []byte
}

func (g *grpcStub) ServeHTTP(w http.ResponseWriter, r *http.Request) {
	_, _ = io.ReadAll(r.Body)
	h := w.Header()
	h.Set("Content-Type", "application/grpc+proto")
	h.Set("Grpc-Encoding", "gzip")
	frame := func(compress bool) []byte {
		payload := g.resp
		flag := byte(0)
		if compress {
			var zb bytes.Buffer
			zw := gzip.NewWriter(&zb)
			_, _ = zw.Write(payload)
			_ = zw.Close()
			payload, flag = zb.Bytes(), 1
		}
		out := []byte{flag, 0, 0, 0, 0}
		binary.BigEndian.PutUint32(out[1:], uint32(len(payload)))
		return append(out, payload...)
	}
	switch g.mode {
	case "trailers-only-error":
		h.Set("Grpc-Status", "5")
		h.Set("Grpc-Message", "no such thing")
		w.WriteHeader(200)
	case "error-after-message":
		h.Set("Trailer", "Grpc-Status, Grpc-Message")
		w.WriteHeader(200)
		_, _ = w.Write(frame(true))
		h.Set("Grpc-Status", "13")
		h.Set("Grpc-Message", "boom")
	case "ok-uncompressed-frame":
		h.Set("Trailer", "Grpc-Status")
		w.WriteHeader(200)
		_, _ = w.Write(frame(false))
		h.Set("Grpc-Status", "0")
	default: // ok
		h.Set("Trailer", "Grpc-Status")
		w.WriteHeader(200)
		_, _ = w.Write(frame(true))
		h.Set("Grpc-Status", "0")
	}
}

// ---- generator ----

func dynMsg(name string, set func(m *dynamicpb.Message, f func(string) protoreflect.FieldDescriptor)) []byte {
	d, err := protoregistry.GlobalFiles.FindDescriptorByName(protoreflect.FullName(name))
	if err != nil {
		panic(err)
	}
	md := d.(protoreflect.MessageDescriptor)
	m := dynamicpb.NewMessage(md)
	set(m, func(n string) protoreflect.FieldDescriptor { return md.Fields().ByName(protoreflect.Name(n)) })
	out, err := proto.MarshalOptions{Deterministic: true}.Marshal(m)
	if err != nil {
		panic(err)
	}
	return out
}

func streamSchema(e *Emitter, rng *rand.Rand, tier string) {
	n := 400
	if tier == "thorough" {
		n = 12000
	}
	if !dynamicOptionsAreDynamic(dynamicService(veriftest.LibraryServiceName)) {
		panic("dynamic-options route does not produce dynamic option values")
	}
	e.Emit("schema_grpc -")
	for k := 0; k < 5; k++ {
		e.Class("schema:proto2-extension")
		e.Emit(fmt.Sprintf("schema_ext %d", k))
	}
	for k := 0; k < 3; k++ {
		e.Class("schema:request-type-shared-response-type-fresh")
		e.Emit(fmt.Sprintf("schema_mixed %d", k))
	}
	for k := 0; k < 3; k++ {
		e.Class("schema:revised-copy-of-linked-in-file")
		e.Emit(fmt.Sprintf("schema_rev %d", k))
	}
	// tables: the annotated schema alone, then with additional WithRules bindings
	probePool := [][2]string{{"GET", "/v1/shelves/1/books/2"}, {"POST", "/v1/shelves/1/books"}, {"GET", "/v1/shelves/1/books"}, {"POST", "/v1/shelves"},
		{"PATCH", "/v1/shelves/1/books/3"}, {"DELETE", "/v1/shelves/1/books/3"}, {"GET", "/v2/shelves/4/books:search"}, {"POST", "/v2/shelves/4/books:move"},
		{"POST", "/v2/checkouts"}, {"PUT", "/v2/checkouts/9"}, {"GET", "/v2/checkouts/9"}, {"GET", "/v2/shelves/1/books/2:checkouts"},
		{"GET", "/index.html"}, {"POST", "/a/b/c.txt:upload"}, {"GET", "/a/b/c.txt:download"}, {"GET", "/x1/a"}, {"PUT", "/x2/a/b"}, {"GET", "/nothing:here"}}
	for i := 0; i < max(3, n/40); i++ {
		var extra []cfgRule
		if i > 0 {
			for k := 1 + rng.IntN(3); k > 0; k-- {
				m := pick(rng, []string{"GetBook", "ListBooks", "DeleteBook", "GetCheckout", "MoveBooks"})
				extra = append(extra, cfgRule{Selector: veriftest.LibraryServiceName + "." + m, Extra: true,
					cfgBinding: cfgBinding{Kind: pick(rng, []string{"get", "put"}), Path: fmt.Sprintf("/x%d/{%s}", k, pick(rng, []string{"name", "parent", "id", "new_parent"})),
						Body: "", Resp: ""}})
			}
		}
		var probes [][2]string
		for _, p := range probePool {
			if rng.IntN(3) != 0 {
				probes = append(probes, p)
			}
		}
		c := schemaAsConfig(extra, probes)
		raw, _ := json.Marshal(c)
		e.Emit("schema_tables " + hex.EncodeToString(raw))
	}
	// traffic
	book := func() []byte {
		return dynMsg("vanguard.test.v1.Book", func(m *dynamicpb.Message, f func(string) protoreflect.FieldDescriptor) {
			m.Set(f("name"), protoreflect.ValueOfString(pick(rng, []string{"shelves/1/books/2", "shelves/a b/books/ü", ""})))
			m.Set(f("title"), protoreflect.ValueOfString(pick(rng, []string{"T", "Ünïcode & <tags>", ""})))
			if rng.IntN(2) == 0 {
				m.Mutable(f("labels")).Map().Set(protoreflect.ValueOfString("k").MapKey(), protoreflect.ValueOfString("v"))
			}
		})
	}
	lib := "/" + veriftest.LibraryServiceName + "/"
	seg := func() string {
		return pick(rng, []string{"1", "abc", "a%20b", "%C3%BC", "x.y", "a%2Fb", "-", "a:b", "%25"})
	}
	jsonBook := func() string {
		return pick(rng, []string{`{"title":"T","author":"A"}`, `{}`, `{"name":"n","labels":{"a":"b"}}`, `{"title":"Ü"}`, `{"unknownField":1}`, `{"title":5}`, `not json`})
	}
	for i := 0; i < n; i++ {
		rq := &schemaReq{}
		which := rng.IntN(14)
		if which >= 12 {
			which = 3 // (more GETs around the URL limit)
		}
		switch which {
		case 0:
			rq.Method, rq.Target, rq.RespFor, rq.Resp = "GET", "/v1/shelves/"+seg()+"/books/"+seg(), lib+"GetBook", hx(book())
		case 1:
			rq.Method, rq.Target, rq.CT, rq.Body = "POST", "/v1/shelves/"+seg()+"/books?book_id="+seg()+"&request_id=r1", "application/json", hx([]byte(jsonBook()))
			rq.RespFor, rq.Resp = lib+"CreateBook", hx(book())
		case 2:
			rq.Method, rq.Target, rq.CT, rq.Body = "PATCH", "/v1/shelves/"+seg()+"/books/"+seg()+"?update_mask="+pick(rng, []string{"title", "title,author", "book.title", ""}), "application/json", hx([]byte(jsonBook()))
			rq.RespFor, rq.Resp = lib+"UpdateBook", hx(book())
		case 3:
			q := seg()
			if rng.IntN(2) == 0 {
				// a query that brings the backend's GET URL close to the configured maximum
				q = strings.Repeat("q", 120+rng.IntN(50))
			}
			rq.Method, rq.Target = "GET", "/v2/shelves/"+seg()+"/books:search?query="+q+"&page_size="+pick(rng, []string{"5", "0", "-1", "abc", "2147483648", "1e3"})
			rq.RespFor, rq.Resp = lib+"SearchBooks", hx(dynMsg("vanguard.test.v1.SearchBooksResponse", func(m *dynamicpb.Message, f func(string) protoreflect.FieldDescriptor) {
				m.Set(f("next_page_token"), protoreflect.ValueOfString("tok"))
			}))
		case 4:
			rq.Method, rq.Target, rq.CT, rq.Body = "POST", "/v2/shelves/"+seg()+"/books:move", "application/json", hx([]byte(pick(rng, []string{`["a","b"]`, `[]`, `"a"`, `{}`})))
			rq.RespFor = lib + "MoveBooks"
		case 5:
			rq.Method, rq.Target, rq.CT, rq.Body = "PUT", "/v2/checkouts/"+pick(rng, []string{"9", "0", "18446744073709551615", "18446744073709551616", "-1", "x"}), "application/json", hx([]byte(pick(rng, []string{`{"bookNames":["x"]}`, `{"book_names":["y","z"]}`, `{}`, `{"id":"3"}`})))
			rq.RespFor = lib + "ReturnBooks"
		case 6:
			rq.Method, rq.Target = "GET", "/v2/checkouts/"+pick(rng, []string{"9", "007", "x"})
			rq.RespFor, rq.Resp = lib+"GetCheckout", hx(dynMsg("vanguard.test.v1.Checkout", func(m *dynamicpb.Message, f func(string) protoreflect.FieldDescriptor) {
				m.Set(f("id"), protoreflect.ValueOfUint64(9))
				if rng.IntN(2) == 0 {
					l := m.Mutable(f("books")).List()
					b := l.NewElement()
					b.Message().Set(b.Message().Descriptor().Fields().ByName("title"), protoreflect.ValueOfString("in list"))
					l.Append(b)
				}
			}))
		case 7:
			rq.Method, rq.Target, rq.CT = "POST", lib+"GetBook", "application/json"
			rq.Body = hx([]byte(pick(rng, []string{`{"name":"shelves/1/books/2"}`, `{}`, `{"name":7}`, `{"nope":1}`})))
			rq.RespFor, rq.Resp = lib+"GetBook", hx(book())
		case 8:
			rq.Method, rq.Target = "GET", "/"+pick(rng, []string{"index.html", "a/b/c", "a%2Fb", ""})
			rq.RespFor = "/" + veriftest.ContentServiceName + "/Index"
			rq.Resp = hx(dynMsg("google.api.HttpBody", func(m *dynamicpb.Message, f func(string) protoreflect.FieldDescriptor) {
				m.Set(f("content_type"), protoreflect.ValueOfString("text/html"))
				m.Set(f("data"), protoreflect.ValueOfBytes([]byte("<p>hello</p>")))
			}))
		case 9:
			rq.Method, rq.Target = "GET", "/v1/shelves/"+seg()+"/books?page_size="+pick(rng, []string{"3", "x", "7"})+"&page_token="+seg()
			rq.RespFor = lib + "ListBooks"
		case 10:
			rq.Method, rq.Target = "DELETE", "/v1/shelves/"+seg()+"/books/"+seg()
			rq.RespFor = lib + "DeleteBook"
		default:
			rq.Method, rq.Target, rq.CT, rq.Body = "POST", "/v2/checkouts", "application/json", hx([]byte(pick(rng, []string{`["a"]`, `[]`, `[1]`})))
			rq.RespFor, rq.Resp = lib+"CheckoutBooks", hx(dynMsg("vanguard.test.v1.Checkout", func(m *dynamicpb.Message, f func(string) protoreflect.FieldDescriptor) {
				m.Set(f("id"), protoreflect.ValueOfUint64(1))
			}))
		}
		if rng.IntN(6) == 0 {
			// the backend fails with details: google.protobuf.Any values of a type of the schema
			// itself, of a well-known type, and of a type nobody knows
			detail := pick(rng, []string{
				`{"type":"vanguard.test.v1.Book","value":"` + base64.RawStdEncoding.EncodeToString(book()) + `"}`,
				`{"type":"google.protobuf.Duration","value":"CAU"}`,
				`{"type":"vanguard.test.v1.GetBookRequest","value":"CgFu"},{"type":"google.protobuf.Duration","value":"CAU"}`,
				`{"type":"acme.Unknown","value":"CAU"}`,
			})
			rq.ErrBody = `{"code":"not_found","message":"no such thing","details":[` + detail + `]}`
			e.Class("schema:error-details")
		}
		e.Class("schema:" + strings.Split(strings.TrimPrefix(rq.RespFor, "/"), "/")[1])
		raw, _ := json.Marshal(rq)
		e.Emit("schema_req " + hex.EncodeToString(raw))
		if rq.ErrBody == "" && rng.IntN(3) == 0 && strings.HasPrefix(rq.RespFor, lib) {
			rq2 := *rq
			rq2.GRPCMode = pick(rng, []string{"ok", "ok-uncompressed-frame", "trailers-only-error", "error-after-message"})
			raw2, _ := json.Marshal(&rq2)
			e.Class("schema:rest-client-grpc-backend " + rq2.GRPCMode)
			e.Emit("schema_rest_grpc " + hex.EncodeToString(raw2))
		}
	}
	_ = sort.Strings
}
