package main

import (
	"runtime"
	"bytes"
	"encoding/hex"
	"errors"
	"fmt"
	"io"
	"sync"
	"sync/atomic"

	"connectrpc.com/connect"
	"connectrpc.com/vanguard"
	"google.golang.org/protobuf/proto"
	"google.golang.org/protobuf/reflect/protodesc"
	"google.golang.org/protobuf/reflect/protoreflect"
	"google.golang.org/protobuf/reflect/protoregistry"
	"google.golang.org/protobuf/types/descriptorpb"
	"google.golang.org/protobuf/types/known/wrapperspb"
)

// ---- schema: verif.v1.Svc, every message is google.protobuf.BytesValue ----

func buildSchema() protoreflect.ServiceDescriptor {
	bv := ".google.protobuf.BytesValue"
	noSide := descriptorpb.MethodOptions_NO_SIDE_EFFECTS
	m := func(name string, cs, ss bool, opts *descriptorpb.MethodOptions) *descriptorpb.MethodDescriptorProto {
		return &descriptorpb.MethodDescriptorProto{Name: proto.String(name), InputType: &bv, OutputType: &bv,
			ClientStreaming: proto.Bool(cs), ServerStreaming: proto.Bool(ss), Options: opts}
	}
	fd := &descriptorpb.FileDescriptorProto{
		Name:       proto.String("verif/v1/svc.proto"),
		Package:    proto.String("verif.v1"),
		Syntax:     proto.String("proto3"),
		Dependency: []string{"google/protobuf/wrappers.proto"},
		Service: []*descriptorpb.ServiceDescriptorProto{{
			Name: proto.String("Svc"),
			Method: []*descriptorpb.MethodDescriptorProto{
				m("Unary", false, false, nil),
				m("Get", false, false, &descriptorpb.MethodOptions{IdempotencyLevel: &noSide}),
				m("CStream", true, false, nil),
				m("SStream", false, true, nil),
				m("Bidi", true, true, nil),
			},
		}},
	}
	_ = wrapperspb.Bytes // make sure wrappers.proto is linked in and registered
	file, err := protodesc.NewFile(fd, protoregistry.GlobalFiles)
	if err != nil {
		panic(err)
	}
	return file.Services().Get(0)
}

// ---- fake codecs over BytesValue ----

func bytesOf(msg proto.Message) []byte {
	m := msg.ProtoReflect()
	f := m.Descriptor().Fields().ByName("value")
	return m.Get(f).Bytes()
}
func setBytes(msg proto.Message, b []byte) {
	m := msg.ProtoReflect()
	f := m.Descriptor().Fields().ByName("value")
	m.Set(f, protoreflect.ValueOfBytes(append([]byte(nil), b...)))
}

// rawCodec: the payload is the value itself. Stable, text (arbitrary bytes that a GET query has to escape; the real proto codec is the stable binary one).
type rawCodec struct{}

func (rawCodec) Name() string { return "raw" }
func (rawCodec) MarshalAppend(base []byte, msg proto.Message) ([]byte, error) {
	return append(base, bytesOf(msg)...), nil
}
func (c rawCodec) MarshalAppendStable(base []byte, msg proto.Message) ([]byte, error) {
	return c.MarshalAppend(base, msg)
}
func (rawCodec) IsBinary() bool { return false } // text: its bytes go into a GET query as they are, escaped (C19: the URL limit counts the escaped form)
func (rawCodec) Unmarshal(data []byte, msg proto.Message) error {
	setBytes(msg, data)
	return nil
}

// hexaCodec: the payload is lower-case hex text of the value. Stable, text. Doubles the size.
type hexaCodec struct{}

func (hexaCodec) Name() string { return "hexa" }
func (hexaCodec) MarshalAppend(base []byte, msg proto.Message) ([]byte, error) {
	return hex.AppendEncode(base, bytesOf(msg)), nil
}
func (c hexaCodec) MarshalAppendStable(base []byte, msg proto.Message) ([]byte, error) {
	return c.MarshalAppend(base, msg)
}
func (hexaCodec) IsBinary() bool { return false }
func (hexaCodec) Unmarshal(data []byte, msg proto.Message) error {
	for _, c := range data {
		if !(c >= '0' && c <= '9' || c >= 'a' && c <= 'f') {
			return errors.New("hexa: invalid character")
		}
	}
	if len(data)%2 != 0 {
		return errors.New("hexa: odd length")
	}
	out := make([]byte, len(data)/2)
	if _, err := hex.Decode(out, data); err != nil {
		return err
	}
	setBytes(msg, out)
	return nil
}

// revCodec: the payload is the value reversed. NOT a StableCodec.
type revCodec struct{}

func (revCodec) Name() string { return "rev" }
func (revCodec) MarshalAppend(base []byte, msg proto.Message) ([]byte, error) {
	b := bytesOf(msg)
	for i := len(b) - 1; i >= 0; i-- {
		base = append(base, b[i])
	}
	return base, nil
}
func (revCodec) Unmarshal(data []byte, msg proto.Message) error {
	out := make([]byte, len(data))
	for i, c := range data {
		out[len(data)-1-i] = c
	}
	setBytes(msg, out)
	return nil
}

// ---- fake compression: tag byte + run-length pairs (count 1..255, byte) ----

func rleCompress(tag byte, src []byte) []byte {
	out := []byte{tag}
	for i := 0; i < len(src); {
		j := i
		for j < len(src) && src[j] == src[i] && j-i < 255 {
			j++
		}
		out = append(out, byte(j-i), src[i])
		i = j
	}
	return out
}

func rleDecompress(tag byte, src []byte) ([]byte, error) {
	if len(src) == 0 || src[0] != tag {
		return nil, errors.New("rle: bad tag")
	}
	src = src[1:]
	if len(src)%2 != 0 {
		return nil, errors.New("rle: truncated pair")
	}
	var out []byte
	for i := 0; i < len(src); i += 2 {
		if src[i] == 0 {
			return nil, errors.New("rle: zero count")
		}
		out = append(out, bytes.Repeat([]byte{src[i+1]}, int(src[i]))...)
	}
	return out, nil
}

// The fake compressors are stateful in the way gzip's are: they refuse to work unless Reset since
// the last Close, the decompressor parses its header in Reset (so Reset can fail) and keeps
// undelivered output around, and both notice being entered by two goroutines at once. Misuse is
// recorded and shows up in the observation as poolviol=.

var fakeViolations struct {
	sync.Mutex
	list []string
}

func fakeViolation(v string) {
	fakeViolations.Lock()
	fakeViolations.list = append(fakeViolations.list, v)
	fakeViolations.Unlock()
}

func takeFakeViolations() []string {
	fakeViolations.Lock()
	defer fakeViolations.Unlock()
	l := fakeViolations.list
	fakeViolations.list = nil
	return l
}

type busyFlag struct{ n atomic.Int32 }

func (b *busyFlag) enter(what string) func() {
	// give other goroutines a chance between the steps of one use: an object that is (wrongly) held by
	// two RPCs at once is then actually used by both in turn, also when few processors are available
	runtime.Gosched()
	if b.n.Add(1) != 1 {
		fakeViolation(what + "-entered-concurrently")
	}
	return func() { b.n.Add(-1) }
}

type rleCompressor struct {
	busyFlag
	tag   byte
	buf   bytes.Buffer
	dst   io.Writer
	ready bool
}

func (c *rleCompressor) Write(p []byte) (int, error) {
	defer c.enter("compressor")()
	if !c.ready {
		fakeViolation("compressor-written-without-reset")
	}
	return c.buf.Write(p)
}
func (c *rleCompressor) Close() error {
	defer c.enter("compressor")()
	if !c.ready {
		fakeViolation("compressor-closed-without-reset")
	}
	c.ready = false
	_, err := c.dst.Write(rleCompress(c.tag, c.buf.Bytes()))
	return err // like gzip, the state is only cleared by Reset
}
func (c *rleCompressor) Reset(w io.Writer) {
	defer c.enter("compressor")()
	c.buf.Reset()
	c.dst, c.ready = w, true
}

type rleDecompressor struct {
	busyFlag
	tag   byte
	src   io.Reader
	out   *bytes.Reader
	done  bool
	ready bool
	bad   bool
}

func (d *rleDecompressor) Read(p []byte) (int, error) {
	defer d.enter("decompressor")()
	if !d.ready {
		fakeViolation("decompressor-read-without-reset")
	}
	if !d.done {
		d.done = true
		all, err := io.ReadAll(d.src)
		if err != nil {
			return 0, err
		}
		dec, err := rleDecompress(d.tag, append([]byte{d.tag}, all...))
		if err != nil {
			d.bad = true
			return 0, err
		}
		d.out = bytes.NewReader(dec)
	}
	if d.out == nil {
		return 0, errors.New("rle: corrupt")
	}
	return d.out.Read(p)
}
func (d *rleDecompressor) Close() error {
	defer d.enter("decompressor")()
	d.ready = false
	return nil
}
func (d *rleDecompressor) Reset(r io.Reader) error {
	defer d.enter("decompressor")()
	d.src, d.out, d.done, d.bad, d.ready = r, nil, false, false, false
	var hdr [1]byte
	if _, err := io.ReadFull(r, hdr[:]); err != nil || hdr[0] != d.tag {
		return errors.New("rle: bad tag")
	}
	d.ready = true
	return nil
}

func fakeOptions() []vanguard.TranscoderOption {
	comp := func(name string, tag byte) vanguard.TranscoderOption {
		return vanguard.WithCompression(name,
			func() connect.Compressor { return &rleCompressor{tag: tag} },
			func() connect.Decompressor { return &rleDecompressor{tag: tag} })
	}
	return []vanguard.TranscoderOption{
		vanguard.WithCodec(func(vanguard.TypeResolver) vanguard.Codec { return rawCodec{} }),
		vanguard.WithCodec(func(vanguard.TypeResolver) vanguard.Codec { return hexaCodec{} }),
		vanguard.WithCodec(func(vanguard.TypeResolver) vanguard.Codec { return revCodec{} }),
		comp("Z", 'Z'), comp("Y", 'Y'),
	}
}

var _ = fmt.Sprint
