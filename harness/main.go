// Command verifharness drives the real vanguard-go implementation (built from
// /repo's working tree with -tags verif).
//
//	verifharness gen  -seed N -tier quick|thorough -out DIR stream...
//	    generate op lines for each stream (DIR/<stream>.ops), execute each of
//	    them on the implementation (DIR/<stream>.impl) and write the realised
//	    input distribution (DIR/<stream>.stats.json)
//	verifharness exec < ops > results
//	    execute op lines on the implementation (used for corpus and replays)
//
// The same op lines are fed to the Lean model driver; the check diffs results.
package main

import (
	"bufio"
	"encoding/hex"
	"encoding/json"
	"errors"
	"flag"
	"fmt"
	"math/rand/v2"
	"os"
	"path/filepath"
	"sort"
	"strings"
	"time"
)

// executors: op name -> function running the implementation on the arguments.
var executors = map[string]func(args []string) string{}

// hung is set once an op did not return within the watchdog period: its goroutine is still stuck
// somewhere inside the implementation (possibly holding the harness lock), so nothing more is
// executed in this process.
var hung bool

var errHungStop = errors.New("stop after hang")

const watchdog = 20 * time.Second

// execLine runs one op line on the implementation; a panic anywhere inside the implementation is
// the canonical result "panic", an op that does not return is "HANG".
func execLine(line string) string {
	toks := strings.Fields(line)
	if len(toks) == 0 {
		return "bad-op"
	}
	fn, ok := executors[toks[0]]
	if !ok {
		return "bad-op"
	}
	if hung {
		return "not-run-after-hang"
	}
	done := make(chan string, 1)
	go func() {
		defer func() {
			if r := recover(); r != nil {
				done <- "panic"
			}
		}()
		done <- fn(toks[1:])
	}()
	select {
	case out := <-done:
		return out
	case <-time.After(watchdog):
		hung = true
		return "HANG"
	}
}

// Emitter collects op lines and implementation results for one stream.
type Emitter struct {
	ops, impl *bufio.Writer
	n         int
	kinds     map[string]int // distribution: op name -> count
	classes   map[string]int // distribution: free-form class labels
	nontriv   map[string]struct{}
	samples   []string
}

// Emit records an op line and executes it on the implementation.
func (e *Emitter) Emit(op string) string {
	result := execLine(op)
	fmt.Fprintln(e.ops, op)
	fmt.Fprintln(e.impl, result)
	e.n++
	name, _, _ := strings.Cut(op, " ")
	e.kinds[name]++
	if len(e.samples) < 16 && e.kinds[name] <= 2 {
		s := op + " => " + result
		if len(s) > 400 {
			s = s[:400] + "..."
		}
		e.samples = append(e.samples, s)
	}
	e.nontriv[op] = struct{}{}
	if result == "HANG" {
		panic(errHungStop)
	}
	return result
}

// Class records a label in the input distribution.
func (e *Emitter) Class(label string) { e.classes[label]++ }

func hx(b []byte) string {
	if len(b) == 0 {
		return "-"
	}
	return hex.EncodeToString(b)
}
func hs(s string) string { return hx([]byte(s)) }
func unhx(s string) []byte {
	if s == "-" {
		return nil
	}
	b, err := hex.DecodeString(s)
	if err != nil {
		panic("bad hex arg")
	}
	return b
}
func unhs(s string) string { return string(unhx(s)) }

type stream func(e *Emitter, rng *rand.Rand, tier string)

var streams = map[string]stream{}

func main() {
	if len(os.Args) < 2 {
		fmt.Fprintln(os.Stderr, "usage: verifharness gen|exec ...")
		os.Exit(2)
	}
	switch os.Args[1] {
	case "exec":
		in := bufio.NewScanner(os.Stdin)
		in.Buffer(make([]byte, 1<<20), 1<<28)
		out := bufio.NewWriter(os.Stdout)
		defer out.Flush()
		for in.Scan() {
			fmt.Fprintln(out, execLine(in.Text()))
		}
		return
	case "gen":
	default:
		fmt.Fprintln(os.Stderr, "usage: verifharness gen|exec ...")
		os.Exit(2)
	}
	fs := flag.NewFlagSet("gen", flag.ExitOnError)
	seed := fs.Uint64("seed", 1, "PRNG seed")
	tier := fs.String("tier", "quick", "quick|thorough")
	out := fs.String("out", ".", "output directory")
	_ = fs.Parse(os.Args[2:])
	names := fs.Args()
	if len(names) == 0 {
		for n := range streams {
			names = append(names, n)
		}
		sort.Strings(names)
	}
	for _, name := range names {
		fn, ok := streams[name]
		if !ok {
			fmt.Fprintf(os.Stderr, "unknown stream %q\n", name)
			os.Exit(2)
		}
		opsF, err := os.Create(filepath.Join(*out, name+".ops"))
		if err != nil {
			panic(err)
		}
		implF, err := os.Create(filepath.Join(*out, name+".impl"))
		if err != nil {
			panic(err)
		}
		e := &Emitter{ops: bufio.NewWriter(opsF), impl: bufio.NewWriter(implF),
			kinds: map[string]int{}, classes: map[string]int{}, nontriv: map[string]struct{}{}}
		// every random choice of a stream derives from (seed, stream name)
		var h uint64 = 1469598103934665603
		for _, c := range []byte(name) {
			h = (h ^ uint64(c)) * 1099511628211
		}
		rng := rand.New(rand.NewPCG(*seed, h))
		func() {
			// after a hang the stuck goroutine may be burning memory: stop generating at once
			defer func() {
				if r := recover(); r != nil && r != errHungStop {
					panic(r)
				}
			}()
			fn(e, rng, *tier)
		}()
		e.ops.Flush()
		e.impl.Flush()
		opsF.Close()
		implF.Close()
		if hung {
			// the remaining streams cannot run in this process
			for _, rest := range names {
				if _, err := os.Stat(filepath.Join(*out, rest+".ops")); err != nil {
					_ = os.WriteFile(filepath.Join(*out, rest+".ops"), nil, 0o644)
					_ = os.WriteFile(filepath.Join(*out, rest+".impl"), nil, 0o644)
					_ = os.WriteFile(filepath.Join(*out, rest+".stats.json"), []byte(`{"ops":0,"kinds":{},"classes":{},"distinct_nontrivial":0,"samples":[]}`), 0o644)
				}
			}
		}
		stats := map[string]any{"stream": name, "ops": e.n, "kinds": e.kinds, "classes": e.classes,
			"distinct_nontrivial": len(e.nontriv), "samples": e.samples}
		data, _ := json.MarshalIndent(stats, "", " ")
		_ = os.WriteFile(filepath.Join(*out, name+".stats.json"), data, 0o644)
		if hung {
			os.Exit(0)
		}
	}
}
