package main

// End-to-end scenarios: a whole Transcoder.ServeHTTP call against a scripted
// backend, observed at both ends and printed in a canonical one-line form
// that the Lean model reproduces (see lean/Vanguard/Model/Serve.lean).

import (
	"bytes"
	"context"
	"encoding/base64"
	"encoding/binary"
	"encoding/hex"
	"encoding/json"
	"errors"
	"fmt"
	"google.golang.org/genproto/googleapis/api/annotations"
	"hash/fnv"
	"io"
	"net/http"
	"net/http/httptest"
	"net/url"
	"os"
	"runtime/debug"
	"sort"
	"strconv"
	"strings"
	"sync"

	"connectrpc.com/vanguard"
	"google.golang.org/genproto/googleapis/rpc/status"
	"google.golang.org/protobuf/proto"
)

// Scenario is one e2e case. All byte strings are hex.
type Scenario struct {
	Cfg struct {
		Protocols []string `json:"protocols"` // connect grpc grpcweb rest
		Codecs    []string `json:"codecs"`    // first = preferred
		Compress  []string `json:"compress"`
		MaxMsg    uint32   `json:"maxMsg"`
		MaxGetURL uint32   `json:"maxGetURL"`
		Unknown   bool     `json:"unknown"`
	} `json:"cfg"`
	// ClientProto tells the response parser which protocol the client speaks:
	// grpc | grpcweb | connect-stream | connect-unary | none (raw compare)
	ClientProto string `json:"cp"`
	Req         struct {
		Method        string     `json:"method"`
		Path          string     `json:"path"`  // hex of the raw (escaped) path
		Query         string     `json:"query"` // hex of the raw query
		ProtoMajor    int        `json:"major"`
		Headers       [][]string `json:"headers"` // [hex key, hex value] added in order
		ContentLength int64      `json:"cl"`
		Body          []string   `json:"body"`    // hex chunks
		BodyEnd       string     `json:"bodyEnd"` // eof | unexpected
	} `json:"req"`
	Script [][]string `json:"script"`
	// Duplex: the handler reads the request on one goroutine while it writes the response on
	// another (only generated for scenarios whose outcome does not depend on their interleaving).
	Duplex bool `json:"duplex,omitempty"`
	// Gates (lock-step client, one entry per body chunk): the number of response messages the
	// client must have received before it sends that chunk. Not part of the model: the model's
	// prediction is that such a client is never kept waiting.
	Gates []int `json:"gates,omitempty"`
	// Relayed lists the error message texts the backend script emits (hex), so the
	// canonicaliser can tell relayed texts (compared exactly) from generated ones.
	Relayed []string `json:"relayed"`
	// Tables for encodings vanguard does not own: JSON payloads the backend writes.
	JSONEnd map[string]JSONEndEntry `json:"jsonEnd"` // hex payload -> decoded connect end-stream
	JSONErr map[string]JSONEndEntry `json:"jsonErr"` // hex body -> decoded connect unary error
	// StatusBin: base64 text of Grpc-Status-Details-Bin -> decoded status
	StatusBin map[string]JSONEndEntry `json:"statusBin"`
	// Expect is the ground truth of a scenario that is valid by construction on both sides
	// (no injected fault): what the client sent and what the backend answered, as values.
	Expect *Expectation `json:"expect,omitempty"`

	gen genInfo
}

// Expectation is what a faithful transcoder must deliver for a clean scenario.
type Expectation struct {
	ReqValues         []string   `json:"reqValues"`  // hex message values sent by the client
	RespValues        []string   `json:"respValues"` // hex message values sent by the backend
	ErrCode           uint32     `json:"errCode"`    // 0 = success
	ErrMsg            string     `json:"errMsg"`     // hex
	Details           int        `json:"details"`
	Trailers          [][]string `json:"trailers"`          // [hex key, hex value] application trailers set by the backend
	RespHeaders       [][]string `json:"respHeaders"`       // [hex key, hex value] application headers set by the backend
	TrailersInHeaders bool       `json:"trailersInHeaders"` // trailers-only style: metadata travels in the header block
	SizesSafe         bool       `json:"sizesSafe"`         // every representation of every message fits the limit
	ReadsAll          bool       `json:"readsAll"`          // the backend reads the whole request
}

type genInfo struct {
	reqClean, respClean bool
	reqValues           [][]byte
}

// JSONEndEntry is the decoded form of an error-bearing payload.
type JSONEndEntry struct {
	Valid   bool       `json:"valid"`
	HasErr  bool       `json:"hasErr"`
	Code    uint32     `json:"code"`
	Msg     string     `json:"msg"` // hex
	Details int        `json:"details"`
	Meta    [][]string `json:"meta"` // [hex key, hex v1, hex v2...]
}

type chunkReader struct {
	chunks [][]byte
	end    string
	closed bool
	pulled int // bytes handed out so far
	// lock-step client (C16): chunk i is sent only after the client has received gates[i]
	// response messages; a Read that needs a chunk the client has not sent yet would block for
	// ever on a real connection: it is recorded as a stall (and the chunk released).
	gates    []int
	idx      int
	received func() int
	stall    string
}

func (c *chunkReader) Read(p []byte) (int, error) {
	if c.closed {
		return 0, errors.New("read on closed body")
	}
	for len(c.chunks) > 0 && len(c.chunks[0]) == 0 {
		c.chunks = c.chunks[1:]
		c.idx++
	}
	if c.gates != nil && len(c.chunks) > 0 && c.idx < len(c.gates) && c.stall == "" {
		if got := c.received(); got < c.gates[c.idx] {
			c.stall = fmt.Sprintf("chunk%d-needs-%d-responses-client-has-%d", c.idx, c.gates[c.idx], got)
		}
	}
	if len(c.chunks) == 0 {
		if c.end == "unexpected" {
			return 0, io.ErrUnexpectedEOF
		}
		return 0, io.EOF
	}
	if len(p) == 0 {
		return 0, nil
	}
	n := copy(p, c.chunks[0])
	c.pulled += n
	c.chunks[0] = c.chunks[0][n:]
	if c.end == "eofdata" {
		// the last bytes come together with io.EOF, as io.Reader allows
		rest := 0
		for _, ch := range c.chunks {
			rest += len(ch)
		}
		if rest == 0 {
			return n, io.EOF
		}
	}
	return n, nil
}
func (c *chunkReader) Close() error { c.closed = true; return nil }

// recorder wraps httptest.ResponseRecorder and logs flush offsets.
type recorder struct {
	*httptest.ResponseRecorder
	flushes  []int
	heads    int
	postHead int // writes/flushes/heads after ServeHTTP returned
}

func (r *recorder) WriteHeader(code int) {
	r.heads++
	r.ResponseRecorder.WriteHeader(code)
}
func (r *recorder) Flush() {
	r.flushes = append(r.flushes, r.Body.Len())
	r.ResponseRecorder.Flush()
}

// backendRun is the state of the scripted backend for the scenario in progress.
type backendRun struct {
	sc       *Scenario
	kind     string // svc | unknown
	calls    int
	req      *http.Request
	reqHdr   http.Header
	read     bytes.Buffer // bytes the handler got from r.Body (not what was pulled from the client)
	readEnd  string
	writes   []string
	ctx      context.Context
	panicked bool
	// progress log: after every read op "delivered:pulled" (bytes the handler got so far : bytes
	// taken from the client's body so far), after every write op "total:flushed" (bytes of the
	// client's response body written so far : offset of the last Flush, -1 = none yet)
	body      *chunkReader
	rec       *recorder
	readProg  [][2]int
	writeProg [][2]int
}

func (run *backendRun) logRead() {
	run.readProg = append(run.readProg, [2]int{run.read.Len(), run.body.pulled})
}

func (run *backendRun) logWrite() {
	fl := -1
	if n := len(run.rec.flushes); n > 0 {
		fl = run.rec.flushes[n-1]
	}
	run.writeProg = append(run.writeProg, [2]int{run.rec.Body.Len(), fl})
}

// runKey carries the scenario's backendRun to the scripted handler through the request context,
// so that any number of scenarios can be in flight at once.
type runKey struct{}

func classifyReadErr(err error) string {
	switch {
	case err == nil:
		return "open"
	case errors.Is(err, io.EOF):
		return "eof"
	default:
		return "err"
	}
}

func scriptedHandler(kind string) http.Handler {
	return http.HandlerFunc(func(w http.ResponseWriter, r *http.Request) {
		run, _ := r.Context().Value(runKey{}).(*backendRun)
		if run == nil {
			return
		}
		run.calls++
		if run.calls > 1 {
			return
		}
		run.kind = kind
		run.req = r
		run.reqHdr = r.Header.Clone()
		run.ctx = r.Context()
		run.readEnd = "open"
		r.Body = teeBody{r.Body, run}
		script := run.sc.Script
		if run.sc.Duplex {
			// full duplex: the request side is driven from its own goroutine while this one
			// produces the response
			var readOps, otherOps [][]string
			for _, op := range script {
				switch op[0] {
				case "readn", "readfix", "readall", "close":
					readOps = append(readOps, op)
				default:
					otherOps = append(otherOps, op)
				}
			}
			done := make(chan struct{})
			go func() {
				defer close(done)
				defer func() {
					if r := recover(); r != nil {
						run.panicked = true
					}
				}()
				runScriptOps(run, readOps, w, r)
			}()
			defer func() { <-done }()
			script = otherOps
		}
		runScriptOps(run, script, w, r)
	})
}

func runScriptOps(run *backendRun, script [][]string, w http.ResponseWriter, r *http.Request) {
	{
		for _, op := range script {
			switch op[0] {
			case "readn", "readfix":
				// readn k buf: read until k bytes were read in total by this op, or error, never
				// asking for more than is still wanted; readfix k buf: the same with a buffer of
				// constant size (a proxy or bufio-style reader), so a Read may ask for more than
				// the rest of the message
				k, _ := strconv.Atoi(op[1])
				bufSize, _ := strconv.Atoi(op[2])
				for got := 0; got < k; {
					ask := min(bufSize, k-got)
					if op[0] == "readfix" {
						ask = bufSize
					}
					n, err := r.Body.Read(make([]byte, ask))
					// note: the buffer is sized so the handler never over-reads
					_ = n
					got += n
					if err != nil {
						run.readEnd = classifyReadErr(err)
						break
					}
				}
				run.logRead()
			case "readall":
				bufSize, _ := strconv.Atoi(op[1])
				buf := make([]byte, bufSize)
				for {
					_, err := r.Body.Read(buf)
					if err != nil {
						run.readEnd = classifyReadErr(err)
						break
					}
				}
				run.logRead()
			case "sethdr":
				w.Header().Set(unhs(op[1]), unhs(op[2]))
			case "addhdr":
				w.Header().Add(unhs(op[1]), unhs(op[2]))
			case "status":
				code, _ := strconv.Atoi(op[1])
				w.WriteHeader(code)
			case "write":
				data := unhx(op[1])
				n, err := w.Write(data)
				res := "ok"
				if err != nil {
					res = "err"
				}
				_ = n
				run.writes = append(run.writes, res)
				run.logWrite()
			case "close": // the handler closes the request body (possibly more than once)
				_ = r.Body.Close()
			case "flush":
				if f, ok := w.(http.Flusher); ok {
					f.Flush()
				}
			}
		}
	}
}

// readn needs the bytes too: patch Read loop above to record (kept simple by wrapping body)
type teeBody struct {
	io.ReadCloser
	run *backendRun
}

func (t teeBody) Read(p []byte) (int, error) {
	n, err := t.ReadCloser.Read(p)
	t.run.read.Write(p[:n])
	return n, err
}

var (
	schemaSvc      = buildSchema()
	transcoderMu   sync.Mutex
	transcoderPool = map[string]*vanguard.Transcoder{}
)

func protoOf(name string) (vanguard.Protocol, bool) {
	switch name {
	case "connect":
		return vanguard.ProtocolConnect, true
	case "grpc":
		return vanguard.ProtocolGRPC, true
	case "grpcweb":
		return vanguard.ProtocolGRPCWeb, true
	case "rest":
		return vanguard.ProtocolREST, true
	}
	return 0, false
}

func buildTranscoder(sc *Scenario, fresh bool) (*vanguard.Transcoder, error) {
	keyBytes, _ := json.Marshal(sc.Cfg)
	key := string(keyBytes)
	if !fresh {
		if t, ok := transcoderPool[key]; ok {
			return t, nil
		}
	}
	var protos []vanguard.Protocol
	for _, p := range sc.Cfg.Protocols {
		pp, ok := protoOf(p)
		if !ok {
			return nil, fmt.Errorf("bad protocol %q", p)
		}
		protos = append(protos, pp)
	}
	allOpts := []vanguard.ServiceOption{
		vanguard.WithTargetProtocols(protos...),
		vanguard.WithTargetCodecs(sc.Cfg.Codecs...),
		vanguard.WithTargetCompression(sc.Cfg.Compress...),
		vanguard.WithMaxMessageBufferBytes(sc.Cfg.MaxMsg),
		vanguard.WithMaxGetURLBytes(sc.Cfg.MaxGetURL),
	}
	// The same configuration is expressed in different ways (a function of the configuration, so
	// that a run is reproducible): each option either on the service itself or as a transcoder-wide
	// default, next to a second service with quite different options of its own, registered before
	// or after.  None of this may change how verif.v1.Svc is served.
	hsh := fnv.New32a()
	hsh.Write(keyBytes)
	mix := hsh.Sum32()
	var svcOpts, defOpts []vanguard.ServiceOption
	for i, o := range allOpts {
		if mix>>uint(i)&1 == 1 {
			defOpts = append(defOpts, o)
		} else {
			svcOpts = append(svcOpts, o)
		}
	}
	opts := fakeOptions()
	if len(defOpts) > 0 {
		opts = append(opts, vanguard.WithDefaultServiceOptions(defOpts...))
	}
	if len(sc.Cfg.Protocols) == 1 && sc.Cfg.Protocols[0] == "rest" {
		// NewTranscoder wants at least one binding for a REST-only service
		opts = append(opts, vanguard.WithRules(&annotations.HttpRule{Selector: "verif.v1.Svc.Unary",
			Pattern: &annotations.HttpRule_Post{Post: "/v1/unary"}, Body: "*"}))
	}
	if sc.Cfg.Unknown {
		opts = append(opts, vanguard.WithUnknownHandler(scriptedHandler("unknown")))
	}
	other := vanguard.NewServiceWithSchema(cfgSchema["cfg.v1.Lib"], http.HandlerFunc(func(http.ResponseWriter, *http.Request) {}),
		vanguard.WithTargetProtocols(vanguard.ProtocolGRPCWeb), vanguard.WithTargetCodecs("rev"), vanguard.WithTargetCompression(),
		vanguard.WithMaxMessageBufferBytes(7), vanguard.WithMaxGetURLBytes(9))
	svcs := []*vanguard.Service{other, vanguard.NewServiceWithSchema(schemaSvc, scriptedHandler("svc"), svcOpts...)}
	if mix>>5&3 == 0 {
		svcs[0], svcs[1] = svcs[1], svcs[0]
	}
	t, err := vanguard.NewTranscoder(svcs, opts...)
	if err != nil {
		return nil, err
	}
	if !fresh {
		transcoderPool[key] = t
	}
	return t, nil
}

// asciiFold replaces every maximal run of non-ASCII bytes by one '?': JSON transport replaces
// invalid UTF-8 by U+FFFD, so such bytes are not comparable one to one.
func asciiFold(s string) string {
	var out []byte
	run := false
	for i := 0; i < len(s); i++ {
		if s[i] >= 0x80 {
			if !run {
				out = append(out, '?')
			}
			run = true
			continue
		}
		run = false
		out = append(out, s[i])
	}
	return string(out)
}

func canonHeaders(h http.Header, skip func(string) bool) string {
	keys := make([]string, 0, len(h))
	for k := range h {
		if skip != nil && skip(k) {
			continue
		}
		keys = append(keys, k)
	}
	if len(keys) == 0 {
		return "-"
	}
	sort.Slice(keys, func(i, j int) bool { return asciiFold(keys[i]) < asciiFold(keys[j]) })
	var sb strings.Builder
	for i, k := range keys {
		if i > 0 {
			sb.WriteByte(';')
		}
		sb.WriteString(hs(asciiFold(k)))
		sb.WriteByte('=')
		vals := h[k]
		if k == "Trailer" {
			vals = append([]string(nil), vals...)
			sort.Strings(vals)
		}
		for j, v := range vals {
			if j > 0 {
				sb.WriteByte(',')
			}
			sb.WriteString(hs(asciiFold(v)))
		}
	}
	return sb.String()
}

// runScenario executes the scenario on the real Transcoder and renders the observation.
func runScenario(sc *Scenario, fresh bool) string {
	transcoderMu.Lock()
	defer transcoderMu.Unlock()
	t, err := buildTranscoder(sc, fresh)
	if err != nil {
		return "config-rejected"
	}
	vanguard.VerifPoolTrace(true)
	out := serveScenario(sc, t)
	trace, poolViolations := vanguard.VerifPoolTrace(false)
	lastPoolTrace = trace
	poolViolations = append(poolViolations, takeFakeViolations()...)
	if len(poolViolations) > 0 {
		// never predicted by the model: a pooled buffer or compressor was released twice, used
		// after its release, or used by two holders at once
		sort.Strings(poolViolations)
		out += " poolviol=" + strings.Join(poolViolations, ",")
	}
	return out
}

// lastPoolTrace: the Get/Put/Wrap events of the last run (for the pool_trace op).
var lastPoolTrace []string

// serveScenario serves the scenario on t and renders the observation; it is re-entrant.
func serveScenario(sc *Scenario, t *vanguard.Transcoder) string {
	target := unhs(sc.Req.Path)
	if q := unhs(sc.Req.Query); q != "" || strings.HasSuffix(target, "?") {
		target += "?" + q
	}
	u, err := url.ParseRequestURI(target)
	if err != nil {
		return "bad-url"
	}
	run := &backendRun{sc: sc}
	hdr := http.Header{}
	for _, kv := range sc.Req.Headers {
		hdr.Add(unhs(kv[0]), unhs(kv[1]))
	}
	body := &chunkReader{end: sc.Req.BodyEnd}
	for _, c := range sc.Req.Body {
		body.chunks = append(body.chunks, unhx(c))
	}
	protoStr := "HTTP/1.1"
	minor := 1
	if sc.Req.ProtoMajor == 2 {
		protoStr, minor = "HTTP/2.0", 0
	}
	ctx, cancelOuter := context.WithCancel(context.WithValue(context.Background(), runKey{}, run))
	defer cancelOuter()
	req := (&http.Request{
		Method: unhs(sc.Req.Method), URL: u, Proto: protoStr, ProtoMajor: sc.Req.ProtoMajor, ProtoMinor: minor,
		Header: hdr, Body: body, ContentLength: sc.Req.ContentLength, Host: "example.test",
		RequestURI: target,
	}).WithContext(ctx)
	rec := &recorder{ResponseRecorder: httptest.NewRecorder()}
	run.body, run.rec = body, rec
	if len(sc.Gates) == len(body.chunks) && len(sc.Gates) > 0 {
		endFlag := byte(0)
		switch sc.ClientProto {
		case "grpcweb":
			endFlag = 0x80
		case "connect-stream":
			endFlag = 2
		}
		body.gates = sc.Gates
		body.received = func() int {
			// complete data frames in the flushed part of the response
			fl := 0
			if n := len(rec.flushes); n > 0 {
				fl = rec.flushes[n-1]
			}
			b := rec.Body.Bytes()
			if fl < len(b) {
				b = b[:fl]
			}
			count := 0
			for len(b) >= 5 {
				n := int(binary.BigEndian.Uint32(b[1:5]))
				if len(b) < 5+n {
					break
				}
				if b[0]&endFlag == 0 || endFlag == 0 {
					count++
				}
				b = b[5+n:]
			}
			return count
		}
	}
	func() {
		defer func() {
			if r := recover(); r != nil {
				run.panicked = true
				if os.Getenv("VERIF_DEBUG") != "" {
					fmt.Fprintf(os.Stderr, "panic: %v\n%s\n", r, debug.Stack())
				}
			}
		}()
		t.ServeHTTP(rec, req)
	}()
	if observeBackend != nil {
		observeBackend(run)
	}

	var out []string
	add := func(k, v string) { out = append(out, k+"="+v) }
	switch {
	case run.calls == 0:
		add("disp", "none")
	case run.calls > 1:
		add("disp", "MULTIPLE")
	default:
		add("disp", run.kind)
		r := run.req
		add("bm", hs(r.Method))
		add("bp", hs(r.URL.Path))
		add("bq", hs(r.URL.RawQuery))
		add("bv", strconv.Itoa(r.ProtoMajor))
		add("bcl", strconv.FormatInt(r.ContentLength, 10))
		add("bh", canonHeaders(run.reqHdr, nil))
		add("br", hx(run.read.Bytes()))
		add("bre", run.readEnd)
		if len(run.writes) == 0 {
			add("bw", "-")
		} else {
			add("bw", strings.Join(run.writes, ","))
		}
		// progress: offsets equal to the final body length are rendered as E (the model does not
		// know the byte length of end frames whose encoding vanguard generates)
		total := rec.Body.Len()
		pos := func(x int) string {
			switch {
			case x < 0:
				return "-"
			case x == total:
				return "E"
			}
			return strconv.Itoa(x)
		}
		prog := func(l [][2]int, f func(int) string) string {
			if len(l) == 0 {
				return "-"
			}
			parts := make([]string, len(l))
			for i, e := range l {
				parts[i] = f(e[0]) + ":" + f(e[1])
			}
			return strings.Join(parts, ",")
		}
		add("rp", prog(run.readProg, strconv.Itoa))
		add("wp", prog(run.writeProg, pos))
		ctxDone := "0"
		if run.ctx.Err() != nil {
			ctxDone = "1"
		}
		add("ctx", ctxDone)
	}
	res := rec.Result()
	out = append(out, canonClient(sc, rec, res)...)
	if body.stall != "" {
		add("stall", body.stall)
	}
	add("heads", strconv.Itoa(rec.heads))
	if run.panicked {
		add("panic", "1")
	} else {
		add("panic", "0")
	}
	return strings.Join(out, " ")
}

// ---- canonical client-side observation ----

func isRelayed(sc *Scenario, msg string) bool {
	for _, m := range sc.Relayed {
		if unhs(m) == msg {
			return true
		}
	}
	return false
}

func canonMsg(sc *Scenario, msg string) string {
	if isRelayed(sc, msg) {
		return hs(msg)
	}
	return "gen"
}

type frame struct {
	flags   byte
	payload []byte
}

func splitFrames(b []byte) (frames []frame, ok bool) {
	for len(b) > 0 {
		if len(b) < 5 {
			return frames, false
		}
		n := int(binary.BigEndian.Uint32(b[1:5]))
		if len(b) < 5+n {
			return frames, false
		}
		frames = append(frames, frame{b[0], b[5 : 5+n]})
		b = b[5+n:]
	}
	return frames, true
}

func endToken(place string, code uint32, msg string, details int) string {
	return fmt.Sprintf("%s:%d:%s:%d", place, code, msg, details)
}

func grpcEndFromHeaders(sc *Scenario, place string, h http.Header) (string, bool) {
	st := h.Get("Grpc-Status")
	if st == "" {
		return "", false
	}
	code, err := strconv.ParseUint(st, 10, 32)
	if err != nil {
		return "MALFORMED-STATUS", true
	}
	msgEnc := h.Get("Grpc-Message")
	msg, err := vanguard.VerifGRPCPercentDecode(msgEnc)
	if err != nil {
		return "MALFORMED-MESSAGE", true
	}
	for i := 0; i < len(msgEnc); i++ {
		if msgEnc[i] < 0x20 || msgEnc[i] > 0x7e {
			return "UNPRINTABLE-MESSAGE", true
		}
	}
	details := 0
	if bin := h.Get("Grpc-Status-Details-Bin"); bin != "" {
		raw, err := base64.RawStdEncoding.DecodeString(strings.TrimRight(bin, "="))
		if err != nil {
			return "MALFORMED-DETAILS", true
		}
		var st status.Status
		if err := proto.Unmarshal(raw, &st); err != nil {
			return "MALFORMED-DETAILS", true
		}
		details = len(st.GetDetails())
		if uint32(st.GetCode()) != uint32(code) || st.GetMessage() != msg {
			return "INCONSISTENT-DETAILS", true
		}
	}
	m := "-"
	if code != 0 || msg != "" {
		m = canonMsg(sc, msg)
	}
	return endToken(place, uint32(code), m, details), true
}

func isGrpcStatusKey(k string) bool {
	return k == "Grpc-Status" || k == "Grpc-Message" || k == "Grpc-Status-Details-Bin"
}

type connectWire struct {
	Code    string            `json:"code"`
	Message string            `json:"message"`
	Details []json.RawMessage `json:"details"`
}

var connectCodeNames = map[string]uint32{"canceled": 1, "unknown": 2, "invalid_argument": 3, "deadline_exceeded": 4,
	"not_found": 5, "already_exists": 6, "permission_denied": 7, "resource_exhausted": 8, "failed_precondition": 9,
	"aborted": 10, "out_of_range": 11, "unimplemented": 12, "internal": 13, "unavailable": 14, "data_loss": 15,
	"unauthenticated": 16}

func connectCode(name string) (uint32, bool) {
	if c, ok := connectCodeNames[name]; ok {
		return c, true
	}
	if rest, ok := strings.CutPrefix(name, "code_"); ok {
		n, err := strconv.ParseUint(rest, 10, 32)
		return uint32(n), err == nil
	}
	return 0, false
}

// canonClient parses what the client received according to the client's own protocol.
// Anything that does not parse under that protocol is rendered MALFORMED so that it can
// never agree with the model.
func canonClient(sc *Scenario, rec *recorder, res *http.Response) []string {
	var out []string
	add := func(k, v string) { out = append(out, k+"="+v) }
	body := rec.Body.Bytes()
	add("cs", strconv.Itoa(res.StatusCode))
	hdr := res.Header.Clone()
	trailer := res.Trailer.Clone()
	end := "none"
	bodyCanon := ""
	framesCanon := func(frames []frame) string {
		if len(frames) == 0 {
			return "-"
		}
		parts := make([]string, len(frames))
		for i, f := range frames {
			parts[i] = fmt.Sprintf("F%d:%s", f.flags, hx(f.payload))
		}
		return strings.Join(parts, ",")
	}
	textPlain := hdr.Get("Content-Type") == "text/plain; charset=utf-8" && hdr.Get("X-Content-Type-Options") == "nosniff"
	switch {
	case textPlain:
		// http.Error rendering of a pre-validation failure: the text is generated
		bodyCanon = "gen"
		end = "http"
	case sc.ClientProto == "grpc":
		if tok, ok := grpcEndFromHeaders(sc, "hdr", hdr); ok {
			end = tok
			for k := range hdr {
				if isGrpcStatusKey(k) {
					delete(hdr, k)
				}
			}
			// a declared trailer key that is already in the header map is echoed by the HTTP stack
			// with the same value; only a *different* status in the trailers is a second outcome
			for k := range trailer {
				if isGrpcStatusKey(k) {
					if strings.Join(trailer[k], ",") != strings.Join(res.Header[k], ",") {
						end = "BOTH-HEADERS-AND-TRAILERS"
					}
					delete(trailer, k)
				}
			}
			if len(body) != 0 {
				end = "TRAILERS-ONLY-WITH-BODY"
			}
		} else if tok, ok := grpcEndFromHeaders(sc, "trailer", trailer); ok {
			end = tok
			for k := range trailer {
				if isGrpcStatusKey(k) {
					delete(trailer, k)
				}
			}
		}
		frames, ok := splitFrames(body)
		bodyCanon = framesCanon(frames)
		for _, f := range frames {
			if f.flags > 1 {
				bodyCanon = "BADFLAGS"
			}
		}
		if !ok {
			bodyCanon = "MALFORMED" // (takes precedence, as in the model's rendering)
		}
	case sc.ClientProto == "grpcweb":
		if tok, ok := grpcEndFromHeaders(sc, "hdr", hdr); ok {
			end = tok
			for k := range hdr {
				if isGrpcStatusKey(k) {
					delete(hdr, k)
				}
			}
			if len(body) != 0 {
				end = "TRAILERS-ONLY-WITH-BODY"
			}
		}
		frames, ok := splitFrames(body)
		if !ok {
			bodyCanon = "MALFORMED"
			break
		}
		var data []frame
		for i, f := range frames {
			if f.flags&0x80 != 0 {
				if i != len(frames)-1 || end != "none" {
					end = "MISPLACED-TRAILER-FRAME"
					continue
				}
				th := http.Header{}
				malformedLine := false
				for _, line := range strings.Split(string(f.payload), "\r\n") {
					if line == "" {
						continue
					}
					k, v, ok := strings.Cut(line, ":")
					if !ok {
						malformedLine = true
						continue
					}
					th.Add(k, strings.TrimSpace(v))
				}
				if malformedLine {
					end = "MALFORMED-TRAILER-LINE"
					continue
				}
				if tok, ok := grpcEndFromHeaders(sc, "frame", th); ok {
					end = tok
				} else {
					end = "TRAILER-FRAME-WITHOUT-STATUS"
				}
				for k := range th {
					if isGrpcStatusKey(k) {
						delete(th, k)
					}
				}
				trailer = th
			} else {
				if f.flags > 1 {
					bodyCanon = "BADFLAGS"
				}
				data = append(data, f)
			}
		}
		if bodyCanon == "" {
			bodyCanon = framesCanon(data)
		}
	case sc.ClientProto == "connect-stream":
		frames, ok := splitFrames(body)
		if !ok {
			bodyCanon = "MALFORMED"
			break
		}
		var data []frame
		for i, f := range frames {
			if f.flags&2 != 0 {
				if i != len(frames)-1 {
					end = "MISPLACED-END-STREAM"
					continue
				}
				hasErr, we, md, err := vanguard.VerifParseConnectEndStream(f.payload)
				if err != nil || !json.Valid(f.payload) {
					end = "MALFORMED-END-STREAM"
					continue
				}
				if !hasErr {
					end = endToken("frame", 0, "-", 0)
				} else {
					end = endToken("frame", we.Code, canonMsg(sc, we.Message), we.Details)
				}
				es := struct{ Metadata http.Header }{md}
				trailer = es.Metadata
			} else {
				if f.flags > 1 {
					bodyCanon = "BADFLAGS"
				}
				data = append(data, f)
			}
		}
		if bodyCanon == "" {
			bodyCanon = framesCanon(data)
		}
	case sc.ClientProto == "connect-unary":
		// trailers travel as Trailer- prefixed headers
		trailer = http.Header{}
		for k, v := range hdr {
			if rest, ok := strings.CutPrefix(k, "Trailer-"); ok {
				trailer[rest] = v
				delete(hdr, k)
			}
		}
		if hdr.Get("Content-Type") != "application/json" {
			bodyCanon = "B:" + hx(body)
			if res.StatusCode == http.StatusOK {
				end = endToken("body", 0, "-", 0)
			}
		} else if !json.Valid(body) {
			// the Connect error JSON is decoded with the same decoder the tables are built with
			bodyCanon = "MALFORMED"
		} else if we, err := vanguard.VerifParseConnectUnaryError(body); err != nil {
			bodyCanon = "MALFORMED"
		} else {
			bodyCanon = "-"
			end = endToken("body", we.Code, canonMsg(sc, we.Message), we.Details)
		}
	default:
		bodyCanon = "B:" + hx(body)
	}
	if cl := hdr.Get("Content-Length"); cl != "" {
		// net/http drops a Content-Length that is not a non-negative number; a valid one must match
		if n, err := strconv.ParseUint(cl, 10, 63); err == nil && int(n) != len(body) {
			bodyCanon = "CONTENT-LENGTH-MISMATCH:" + bodyCanon
		}
	}
	add("ch", canonHeaders(hdr, func(k string) bool { return k == "Content-Length" }))
	add("cb", bodyCanon)
	add("end", end)
	add("ct", canonHeaders(trailer, nil))
	nf := 0
	for range rec.flushes {
		nf++
	}
	_ = nf
	return out
}

func init() {
	executors["e2e"] = func(a []string) string {
		var sc Scenario
		raw, err := hex.DecodeString(a[0])
		if err != nil {
			return "bad-arg"
		}
		if err := json.Unmarshal(raw, &sc); err != nil {
			return "bad-arg"
		}
		return runScenario(&sc, false)
	}
	executors["e2e_fresh"] = func(a []string) string {
		var sc Scenario
		raw, err := hex.DecodeString(a[0])
		if err != nil {
			return "bad-arg"
		}
		if err := json.Unmarshal(raw, &sc); err != nil {
			return "bad-arg"
		}
		return runScenario(&sc, true)
	}
}
