package main

// Configuration stream (C17): random NewTranscoder configurations over a small fixed schema -
// services whose names are prefixes of one another, methods whose names are prefixes of one
// another, default and per-service options (valid, empty, unknown names), WithRules rule sets
// (exact and wildcard selectors, good and bad templates, body / response_body / variable field
// paths of every shape, additional and nested bindings, conflicts).  The implementation's answer
// is accept/reject, for accepted configurations the tables NewTranscoder built and the binding
// that serves each probe URL; for rejected ones the class of the error.

import (
	"encoding/hex"
	"encoding/json"
	"fmt"
	"math/rand/v2"
	"net/http"
	"slices"
	"sort"
	"strings"

	"connectrpc.com/vanguard"
	"google.golang.org/genproto/googleapis/api/annotations"
	"google.golang.org/protobuf/proto"
	"google.golang.org/protobuf/reflect/protodesc"
	"google.golang.org/protobuf/reflect/protoreflect"
	"google.golang.org/protobuf/reflect/protoregistry"
	"google.golang.org/protobuf/types/descriptorpb"
)

// ---- the schema (also shipped to the model inside every op line) ----

type cfgField struct {
	Name     string `json:"name"`
	Repeated bool   `json:"repeated"`
	Message  string `json:"message"` // "" = scalar
	kind     descriptorpb.FieldDescriptorProto_Type
	IsMap    bool   `json:"isMap,omitempty"`
	Kind     string `json:"kind,omitempty"` // filled in from kind (for the REST model)
	JSON     string `json:"json,omitempty"` // JSON name
}

// kindName is the scalar kind as the REST model needs it.
func (f cfgField) kindName() string {
	switch {
	case f.Message != "":
		return "message"
	case f.kind == descriptorpb.FieldDescriptorProto_TYPE_STRING:
		return "string"
	case f.kind == descriptorpb.FieldDescriptorProto_TYPE_INT32:
		return "int32"
	case f.kind == descriptorpb.FieldDescriptorProto_TYPE_INT64:
		return "int64"
	case f.kind == descriptorpb.FieldDescriptorProto_TYPE_UINT32:
		return "uint32"
	case f.kind == descriptorpb.FieldDescriptorProto_TYPE_BOOL:
		return "bool"
	case f.kind == descriptorpb.FieldDescriptorProto_TYPE_BYTES:
		return "bytes"
	}
	return "other"
}

var cfgMessages = map[string][]cfgField{
	"Deep":  {cf("leaf", false, "", descriptorpb.FieldDescriptorProto_TYPE_STRING)},
	"Inner": {cf("id", false, "", descriptorpb.FieldDescriptorProto_TYPE_STRING), cf("nums", true, "", descriptorpb.FieldDescriptorProto_TYPE_INT32), cf("deep", false, "Deep", 0)},
	"Req": {cf("name", false, "", descriptorpb.FieldDescriptorProto_TYPE_STRING), cf("n", false, "", descriptorpb.FieldDescriptorProto_TYPE_INT32),
		cf("tags", true, "", descriptorpb.FieldDescriptorProto_TYPE_STRING), cf("inner", false, "Inner", 0), cf("inners", true, "Inner", 0),
		cf("data", false, "", descriptorpb.FieldDescriptorProto_TYPE_BYTES),
		cf("book_id", false, "", descriptorpb.FieldDescriptorProto_TYPE_STRING), cf("flag", false, "", descriptorpb.FieldDescriptorProto_TYPE_BOOL),
		cf("big", false, "", descriptorpb.FieldDescriptorProto_TYPE_INT64), cf("cnt", false, "", descriptorpb.FieldDescriptorProto_TYPE_UINT32)},
	"Resp": {cf("name", false, "", descriptorpb.FieldDescriptorProto_TYPE_STRING), cf("inner", false, "Inner", 0), cf("items", true, "", descriptorpb.FieldDescriptorProto_TYPE_STRING)},
}

func cf(name string, repeated bool, message string, kind descriptorpb.FieldDescriptorProto_Type) cfgField {
	return cfgField{Name: name, Repeated: repeated, Message: message, kind: kind}
}

type cfgMethod struct {
	Name   string `json:"name"`
	In     string `json:"in"`
	Out    string `json:"out"`
	stream bool
}

type cfgService struct {
	Name    string      `json:"name"` // full name
	Methods []cfgMethod `json:"methods"`
}

var cfgServices = []cfgService{
	{"cfg.v1.Lib", []cfgMethod{{"Get", "Req", "Resp", false}, {"GetBook", "Req", "Resp", false}, {"GetBookShelf", "Req", "Resp", false},
		{"List", "Req", "Resp", false}, {"Create", "Req", "Resp", false}, {"Watch", "Req", "Resp", true}}},
	{"cfg.v1.LibAdmin", []cfgMethod{{"Get", "Req", "Resp", false}, {"Purge", "Req", "Resp", false}}},
	{"cfg.v1.Library", []cfgMethod{{"Get", "Req", "Resp", false}}},
}

// jsonNameOf: lowerCamelCase, as protoc derives JSON names.
func jsonNameOf(name string) string {
	var out []byte
	up := false
	for i := 0; i < len(name); i++ {
		switch {
		case name[i] == '_':
			up = true
		case up && name[i] >= 'a' && name[i] <= 'z':
			out = append(out, name[i]-32)
			up = false
		default:
			out = append(out, name[i])
			up = false
		}
	}
	return string(out)
}

var cfgSchema = buildCfgSchema()

func init() {
	for name, fs := range cfgMessages {
		for i := range fs {
			fs[i].Kind, fs[i].JSON = fs[i].kindName(), jsonNameOf(fs[i].Name)
		}
		cfgMessages[name] = fs
	}
}

func buildCfgSchema() map[string]protoreflect.ServiceDescriptor {
	fd := &descriptorpb.FileDescriptorProto{
		Name: proto.String("cfg/v1/lib.proto"), Package: proto.String("cfg.v1"), Syntax: proto.String("proto3"),
	}
	var names []string
	for n := range cfgMessages {
		names = append(names, n)
	}
	sort.Strings(names)
	for _, n := range names {
		md := &descriptorpb.DescriptorProto{Name: proto.String(n)}
		for i, f := range cfgMessages[n] {
			fp := &descriptorpb.FieldDescriptorProto{Name: proto.String(f.Name), Number: proto.Int32(int32(i + 1)),
				Label: descriptorpb.FieldDescriptorProto_LABEL_OPTIONAL.Enum(), JsonName: proto.String(jsonNameOf(f.Name))}
			if f.Repeated {
				fp.Label = descriptorpb.FieldDescriptorProto_LABEL_REPEATED.Enum()
			}
			if f.Message != "" {
				fp.Type = descriptorpb.FieldDescriptorProto_TYPE_MESSAGE.Enum()
				fp.TypeName = proto.String(".cfg.v1." + f.Message)
			} else {
				fp.Type = f.kind.Enum()
			}
			md.Field = append(md.Field, fp)
		}
		fd.MessageType = append(fd.MessageType, md)
	}
	for _, s := range cfgServices {
		sd := &descriptorpb.ServiceDescriptorProto{Name: proto.String(strings.TrimPrefix(s.Name, "cfg.v1."))}
		for _, m := range s.Methods {
			sd.Method = append(sd.Method, &descriptorpb.MethodDescriptorProto{Name: proto.String(m.Name),
				InputType: proto.String(".cfg.v1." + m.In), OutputType: proto.String(".cfg.v1." + m.Out), ServerStreaming: proto.Bool(m.stream)})
		}
		fd.Service = append(fd.Service, sd)
	}
	file, err := protodesc.NewFile(fd, protoregistry.GlobalFiles)
	if err != nil {
		panic(err)
	}
	out := map[string]protoreflect.ServiceDescriptor{}
	for i := 0; i < file.Services().Len(); i++ {
		s := file.Services().Get(i)
		out[string(s.FullName())] = s
	}
	return out
}

// ---- configuration as it travels in the op line ----

type cfgOpt struct {
	Kind  string   `json:"kind"` // protocols codecs compress maxMsg maxGet
	Nums  []int    `json:"nums,omitempty"`
	Names []string `json:"names,omitempty"`
	N     uint32   `json:"n,omitempty"`
}

type cfgBinding struct {
	Kind   string `json:"kind"` // get put post delete patch custom:<KIND> none
	Path   string `json:"path"`
	Body   string `json:"body"`
	Resp   string `json:"resp"`
	Nested bool   `json:"nested,omitempty"` // has additional bindings of its own
}

type cfgRule struct {
	Selector string `json:"selector"`
	// Extra marks a WithRules rule in the schema stream (the others there come from annotations).
	Extra bool `json:"extra,omitempty"`
	cfgBinding
	Additional []cfgBinding `json:"additional,omitempty"`
}

type cfgSvcReg struct {
	Svc  string   `json:"svc"`
	Opts []cfgOpt `json:"opts"`
}

type cfgConfig struct {
	Schema struct {
		Messages map[string][]cfgField `json:"messages"`
		Services []cfgService          `json:"services"`
	} `json:"schema"`
	KnownCodecs      []string    `json:"knownCodecs"`
	KnownCompressors []string    `json:"knownCompressors"`
	Defaults         []cfgOpt    `json:"defaults"`
	Services         []cfgSvcReg `json:"services"`
	Rules            []cfgRule   `json:"rules"`
	Probes           [][2]string `json:"probes"` // [http method, path]
}

func (o cfgOpt) svcOption() vanguard.ServiceOption {
	switch o.Kind {
	case "protocols":
		ps := make([]vanguard.Protocol, len(o.Nums))
		for i, n := range o.Nums {
			ps[i] = vanguard.Protocol(n)
		}
		return vanguard.WithTargetProtocols(ps...)
	case "codecs":
		return vanguard.WithTargetCodecs(o.Names...)
	case "compress":
		return vanguard.WithTargetCompression(o.Names...)
	case "maxMsg":
		return vanguard.WithMaxMessageBufferBytes(o.N)
	default:
		return vanguard.WithMaxGetURLBytes(o.N)
	}
}

func (b cfgBinding) rule() *annotations.HttpRule {
	r := &annotations.HttpRule{Body: b.Body, ResponseBody: b.Resp}
	switch {
	case b.Kind == "get":
		r.Pattern = &annotations.HttpRule_Get{Get: b.Path}
	case b.Kind == "put":
		r.Pattern = &annotations.HttpRule_Put{Put: b.Path}
	case b.Kind == "post":
		r.Pattern = &annotations.HttpRule_Post{Post: b.Path}
	case b.Kind == "delete":
		r.Pattern = &annotations.HttpRule_Delete{Delete: b.Path}
	case b.Kind == "patch":
		r.Pattern = &annotations.HttpRule_Patch{Patch: b.Path}
	case strings.HasPrefix(b.Kind, "custom:"):
		r.Pattern = &annotations.HttpRule_Custom{Custom: &annotations.CustomHttpPattern{Kind: strings.TrimPrefix(b.Kind, "custom:"), Path: b.Path}}
	}
	if b.Nested {
		r.AdditionalBindings = []*annotations.HttpRule{{Pattern: &annotations.HttpRule_Get{Get: "/nested"}}}
	}
	return r
}

func buildFromConfig(c *cfgConfig) (*vanguard.Transcoder, error) {
	var opts []vanguard.TranscoderOption
	for _, n := range c.KnownCodecs {
		if n == "hexa" {
			opts = append(opts, vanguard.WithCodec(func(vanguard.TypeResolver) vanguard.Codec { return hexaCodec{} }))
		}
	}
	for _, n := range c.KnownCompressors {
		if n == "Z" {
			opts = append(opts, fakeOptions()[3]) // the RLE compressor "Z"
		}
	}
	if len(c.Defaults) > 0 {
		var ds []vanguard.ServiceOption
		for _, o := range c.Defaults {
			ds = append(ds, o.svcOption())
		}
		opts = append(opts, vanguard.WithDefaultServiceOptions(ds...))
	}
	var rules []*annotations.HttpRule
	for _, r := range c.Rules {
		hr := r.cfgBinding.rule()
		hr.Selector = r.Selector
		for _, a := range r.Additional {
			hr.AdditionalBindings = append(hr.AdditionalBindings, a.rule())
		}
		rules = append(rules, hr)
	}
	if len(rules) > 0 {
		opts = append(opts, vanguard.WithRules(rules...))
	}
	var svcs []*vanguard.Service
	noop := http.HandlerFunc(func(http.ResponseWriter, *http.Request) {})
	for _, s := range c.Services {
		var so []vanguard.ServiceOption
		for _, o := range s.Opts {
			so = append(so, o.svcOption())
		}
		svcs = append(svcs, vanguard.NewServiceWithSchema(cfgSchema[s.Svc], noop, so...))
	}
	return vanguard.NewTranscoder(svcs, opts...)
}

func classifyConfigErr(err error) string {
	msg := err.Error()
	has := func(s string) bool { return strings.Contains(msg, s) }
	switch {
	case has("configured with no target protocols"):
		return "noProtocols"
	case has("is not a valid value"):
		return "badProtocol"
	case has("configured with no target codecs"):
		return "noCodecs"
	case has("is not known; use WithCodec"):
		return "unknownCodec"
	case has("is not known; use WithCompression"):
		return "unknownCompression"
	case has("invalid max message buffer size"):
		return "badMaxMsg"
	case has("invalid max GET URL length"):
		return "badMaxGet"
	case has("duplicate registration"):
		return "duplicateMethod"
	case has("rule missing selector"):
		return "missingSelector"
	case has("must be at the end"):
		return "wildcardNotAtEnd"
	case has("must be whole component"):
		return "wildcardNotWhole"
	case has("does not match any methods"):
		return "ruleNoMatch"
	case has("nested additional bindings"):
		return "nestedBindings"
	case has("only supports REST target protocol"):
		return "restOnlyNoRules"
	case has("invalid type of pattern"):
		return "noPattern"
	case has("method is blank"):
		return "blankMethod"
	case has("path template is blank"):
		return "blankTemplate"
	case has("does not correspond to any field"), has("should not be a list or map"), has("should be a message but is instead"),
		has("must be a single field"), has("cannot be a repeated field"), has("empty field path"):
		return "badFieldPath"
	case has("already") || has("conflict"):
		return "routeConflict"
	case has("failed to add REST route"):
		return "badTemplate"
	}
	return "OTHER:" + msg
}

func runConfig(hexJSON string) (accept bool, out string, class string) {
	raw, err := hex.DecodeString(hexJSON)
	if err != nil {
		return false, "bad-op", ""
	}
	c := &cfgConfig{}
	if err := json.Unmarshal(raw, c); err != nil {
		return false, "bad-op", ""
	}
	var t *vanguard.Transcoder
	panicked := ""
	func() {
		defer func() {
			if r := recover(); r != nil {
				panicked = fmt.Sprint(r)
			}
		}()
		t, err = buildFromConfig(c)
	}()
	if panicked != "" {
		return false, "PANIC", "PANIC"
	}
	if err != nil {
		if t != nil {
			return false, "reject-with-transcoder", classifyConfigErr(err)
		}
		return false, "reject", classifyConfigErr(err)
	}
	var sb strings.Builder
	sb.WriteString("accept")
	for _, m := range t.VerifTables() {
		ps := make([]string, len(m.Protocols))
		for i, p := range m.Protocols {
			ps[i] = fmt.Sprint(p)
		}
		fmt.Fprintf(&sb, " M{%s|%s|%s|%s|%s|%d|%d|%s|%s|%s|%s}", m.Path, strings.Join(ps, ","), strings.Join(m.Codecs, ","), m.PreferredCodec,
			strings.Join(m.Compressors, ","), m.MaxMsg, m.MaxGet, m.RuleMethod, hs(m.RulePattern), m.RuleBody, m.RuleRespBody)
	}
	for _, p := range c.Probes {
		mp, body, resp, vars, found := t.VerifRouteMatch(p[1], p[0])
		if !found {
			sb.WriteString(" P{none}")
			continue
		}
		fmt.Fprintf(&sb, " P{%s|%s|%s|%s}", mp, body, resp, hs(strings.Join(vars, "&")))
	}
	return true, sb.String(), ""
}

func init() {
	executors["config"] = func(a []string) string {
		_, out, _ := runConfig(a[0])
		return out
	}
	executors["config_err"] = func(a []string) string {
		ok, _, class := runConfig(a[0])
		if ok {
			return "accepted"
		}
		return class
	}
	streams["config"] = streamConfig
}

// ---- generator ----

type tmplChoice struct{ tmpl, url string }

var cfgTemplates = []tmplChoice{
	{"/v1/books", "/v1/books"}, {"/v1/books/{name}", "/v1/books/b1"}, {"/v1/{name=shelves/*}/books", "/v1/shelves/s1/books"},
	{"/v1/books/{inner.id}", "/v1/books/i7"}, {"/v1/{name=**}", "/v1/a/b/c"}, {"/v1/books:archive", "/v1/books:archive"},
	{"/v1/items/{n}", "/v1/items/12"}, {"/v1/deep/{inner.deep.leaf}/x", "/v1/deep/q/x"}, {"/v2/{name}/{inner.id}", "/v2/a/b"},
	{"/v1/*/list", "/v1/zzz/list"}, {"/v1/books/{name}:verb", "/v1/books/b2:verb"}, {"/v1/shelves/{name=*}", "/v1/shelves/s9"},
}

var cfgBadTemplates = []string{"v1/books", "/v1/{name", "/v1/{tags}", "/v1/{nosuch}", "/v1/{inner.nums}", "/v1/{name.x}", "", "/v1/{inners.id}",
	"/v1/{name}/{name}", "/v1//x", "/v1/{name=**}/more/**", "/v1/{inner.}", "/v1/{inner}"}

func streamConfig(e *Emitter, rng *rand.Rand, tier string) {
	n := 1200
	if tier == "thorough" {
		n = 30000
	}
	allMethods := []string{}
	for _, s := range cfgServices {
		for _, m := range s.Methods {
			allMethods = append(allMethods, s.Name+"."+m.Name)
		}
	}
	var known func(names [][]string, all []string) [][]string
	known = func(names [][]string, all []string) [][]string {
		var out [][]string
		for _, l := range names {
			ok := true
			for _, n := range l {
				ok = ok && slices.Contains(all, n)
			}
			if ok {
				out = append(out, l)
			}
		}
		return out
	}
	var curCodecs, curComps []string
	optOf := func(hostile bool) cfgOpt {
		switch rng.IntN(5) {
		case 0:
			ps := [][]int{{1}, {2}, {3}, {4}, {1, 2, 3}, {1, 4}, {2, 4}, {1, 2, 3, 4}}
			if hostile {
				ps = append(ps, []int{}, []int{0}, []int{5, 1}, []int{9})
			}
			return cfgOpt{Kind: "protocols", Nums: pick(rng, ps)}
		case 1:
			cs := [][]string{{"proto"}, {"json"}, {"json", "proto"}, {"hexa"}, {"proto", "hexa"}}
			if hostile {
				cs = append(cs, []string{}, []string{"bogus"}, []string{"proto", "nope"})
			} else {
				cs = known(cs, curCodecs)
			}
			return cfgOpt{Kind: "codecs", Names: pick(rng, cs)}
		case 2:
			cs := [][]string{{"gzip"}, {}, {"Z"}, {"gzip", "Z"}}
			if hostile {
				cs = append(cs, []string{"br"}, []string{"gzip", "zstd"})
			} else {
				cs = known(cs, curComps)
			}
			return cfgOpt{Kind: "compress", Names: pick(rng, cs)}
		case 3:
			ns := []uint32{1, 16, 1 << 20, 4294967295}
			if hostile {
				ns = append(ns, 0)
			}
			return cfgOpt{Kind: "maxMsg", N: pick(rng, ns)}
		default:
			ns := []uint32{1, 200, 8192}
			if hostile {
				ns = append(ns, 0)
			}
			return cfgOpt{Kind: "maxGet", N: pick(rng, ns)}
		}
	}
	for i := 0; i < n; i++ {
		c := &cfgConfig{}
		c.Schema.Messages, c.Schema.Services = cfgMessages, cfgServices
		c.KnownCodecs, c.KnownCompressors = []string{"json", "proto"}, []string{"gzip"}
		if rng.IntN(2) == 0 {
			c.KnownCodecs = append(c.KnownCodecs, "hexa")
		}
		if rng.IntN(2) == 0 {
			c.KnownCompressors = append(c.KnownCompressors, "Z")
		}
		curCodecs, curComps = c.KnownCodecs, c.KnownCompressors
		uniq := 0
		hostile := rng.IntN(4) == 0 // a quarter of the configurations may carry invalid options
		for k := rng.IntN(3); k > 0; k-- {
			c.Defaults = append(c.Defaults, optOf(hostile && rng.IntN(3) == 0))
		}
		// services: a subset, sometimes one twice
		for _, s := range cfgServices {
			if rng.IntN(4) == 0 {
				continue
			}
			reg := cfgSvcReg{Svc: s.Name, Opts: []cfgOpt{}}
			for k := rng.IntN(3); k > 0; k-- {
				reg.Opts = append(reg.Opts, optOf(hostile && rng.IntN(3) == 0))
			}
			c.Services = append(c.Services, reg)
			if rng.IntN(25) == 0 {
				c.Services = append(c.Services, reg)
				e.Class("cfg:duplicate-service")
			}
		}
		if len(c.Services) == 0 {
			c.Services = []cfgSvcReg{{Svc: cfgServices[0].Name, Opts: []cfgOpt{}}}
		}
		// rules
		var registered []string
		for _, s := range c.Services {
			for _, m := range allMethods {
				if strings.HasPrefix(m, s.Svc+".") && strings.Count(m, ".") == strings.Count(s.Svc, ".")+1 {
					registered = append(registered, m)
				}
			}
		}
		binding := func(bad bool) (cfgBinding, string) {
			t := pick(rng, cfgTemplates)
			b := cfgBinding{Kind: pick(rng, []string{"get", "get", "post", "put", "delete", "patch", "custom:HEAD", "custom:*"}), Path: t.tmpl}
			b.Body = pick(rng, []string{"", "", "*", "inner", "name", "tags"})
			b.Resp = pick(rng, []string{"", "", "*", "inner", "items"})
			url := t.url
			if rng.IntN(4) != 0 {
				// mostly distinct routes: otherwise nearly every rule set conflicts with itself
				uniq++
				b.Path, url = fmt.Sprintf("/u%d%s", uniq, b.Path), fmt.Sprintf("/u%d%s", uniq, url)
			}
			if bad {
				switch rng.IntN(6) {
				case 0:
					b.Path = pick(rng, cfgBadTemplates)
				case 1:
					b.Body = pick(rng, []string{"nosuch", "inner.id", "name.x", "tags.x", ".", "name.", "inner.", ".name", "inner..id"})
				case 2:
					b.Resp = pick(rng, []string{"nosuch", "inner.id", "items.x", "inner.", "items.", ".inner"})
				case 3:
					b.Kind = pick(rng, []string{"none", "custom:"})
				case 4:
					b.Nested = true
				}
			}
			return b, url
		}
		for k := rng.IntN(5); k > 0 && len(registered) > 0; k-- {
			var r cfgRule
			m := pick(rng, registered)
			switch rng.IntN(14) {
			case 0, 1, 2, 3, 4, 10, 11, 12, 13:
				r.Selector = m // an exact method name (often a prefix of other method names)
				e.Class("cfg:selector-exact")
			case 5:
				r.Selector = m[:strings.LastIndex(m, ".")] + ".*" // all methods of the service
				e.Class("cfg:selector-service-wildcard")
			case 6:
				r.Selector = pick(rng, []string{"cfg.v1.*", "cfg.*", "*"})
				e.Class("cfg:selector-package-wildcard")
			case 7:
				// not a method: a service name, a method-name prefix, a name of an unregistered service
				r.Selector = pick(rng, []string{m[:strings.LastIndex(m, ".")], m[:len(m)-1], "cfg.v1.Lib.Ge", "cfg.v1.Nope.Get", "cfg.v1.Lib.GetBookS", m + "X"})
				e.Class("cfg:selector-non-method")
			case 8:
				r.Selector = pick(rng, []string{"cfg.v1.Lib*", "cfg.v1.Lib.Get*", "cfg.*.Get", "*.Get", "cfg.v1.Lib.**", ""})
				e.Class("cfg:selector-malformed")
			default:
				r.Selector = pick(rng, allMethods) // possibly of a service that is not registered
				e.Class("cfg:selector-any-method")
			}
			var url string
			r.cfgBinding, url = binding(hostile && rng.IntN(3) == 0)
			c.Probes = append(c.Probes, [2]string{probeMethod(r.Kind), url})
			for a := rng.IntN(3); a > 1; a-- {
				ab, aurl := binding(hostile && rng.IntN(4) == 0)
				r.Additional = append(r.Additional, ab)
				c.Probes = append(c.Probes, [2]string{probeMethod(ab.Kind), aurl})
			}
			c.Rules = append(c.Rules, r)
		}
		for k := rng.IntN(3); k > 0; k-- {
			c.Probes = append(c.Probes, [2]string{pick(rng, []string{"GET", "POST", "HEAD"}), pick(rng, cfgTemplates).url})
		}
		raw, _ := json.Marshal(c)
		h := hex.EncodeToString(raw)
		e.Emit("config " + h)
		e.Emit("config_err " + h)
	}
}

func probeMethod(kind string) string {
	switch {
	case kind == "none":
		return "GET"
	case strings.HasPrefix(kind, "custom:"):
		if k := strings.TrimPrefix(kind, "custom:"); k != "" && k != "*" {
			return k
		}
		return "OPTIONS"
	}
	return strings.ToUpper(kind)
}
