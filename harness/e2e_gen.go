package main

// Generator of e2e scenarios. Every random choice comes from the stream's PRNG.
// A scenario is built in two phases: the request first; then a probe run tells
// the generator which protocol / codec / compression the backend is addressed
// in, so that the response script can be mostly valid for that protocol.

import (
	"encoding/base64"
	"encoding/binary"
	"encoding/hex"
	"encoding/json"
	"fmt"
	"math/rand/v2"
	"net/http"
	"net/url"
	"runtime"
	"runtime/debug"
	"slices"
	"strings"

	"connectrpc.com/connect"
	"connectrpc.com/vanguard"
	"google.golang.org/genproto/googleapis/rpc/status"
	"google.golang.org/protobuf/proto"
	"google.golang.org/protobuf/types/known/anypb"
	"google.golang.org/protobuf/types/known/wrapperspb"
)

func init() {
	streams["e2e"] = streamE2E
}

type methodInfo struct {
	name       string
	clientStr  bool
	serverStr  bool
	idempotent bool
}

var methods = []methodInfo{
	{"Unary", false, false, false}, {"Get", false, false, true}, {"CStream", true, false, false},
	{"SStream", false, true, false}, {"Bidi", true, true, false},
}

func pick[T any](rng *rand.Rand, xs []T) T { return xs[rng.IntN(len(xs))] }

func subset(rng *rand.Rand, xs []string, nonEmpty bool) []string {
	for {
		var out []string
		for _, x := range xs {
			if rng.IntN(2) == 0 {
				out = append(out, x)
			}
		}
		rng.Shuffle(len(out), func(i, j int) { out[i], out[j] = out[j], out[i] })
		if len(out) > 0 || !nonEmpty {
			return out
		}
	}
}

func encodeValue(codec string, v []byte) []byte {
	switch codec {
	case "proto", "proto-short":
		// google.protobuf.BytesValue{value: v}, canonical encoding (vanguard's built-in proto codec)
		if len(v) == 0 {
			return nil
		}
		out := []byte{0x0A}
		for n := uint64(len(v)); ; {
			if n < 0x80 {
				out = append(out, byte(n))
				break
			}
			out = append(out, byte(n)|0x80)
			n >>= 7
		}
		return append(out, v...)
	case "hexa":
		return []byte(hex.EncodeToString(v))
	case "rev":
		out := make([]byte, len(v))
		for i, c := range v {
			out[len(v)-1-i] = c
		}
		return out
	default:
		return append([]byte(nil), v...)
	}
}

func compressValue(comp string, v []byte) []byte {
	switch comp {
	case "Z":
		return rleCompress('Z', v)
	case "Y":
		return rleCompress('Y', v)
	}
	return v
}

func envelope(flags byte, payload []byte) []byte {
	out := make([]byte, 5, 5+len(payload))
	out[0] = flags
	binary.BigEndian.PutUint32(out[1:], uint32(len(payload)))
	return append(out, payload...)
}

// valueMode "limits" draws message sizes at and around the buffer limit, and highly compressible ones.
var valueMode = ""

// genMaxValue, when positive, caps the size of message values.
var genMaxValue int

func randValue(rng *rand.Rand, maxMsg int) []byte {
	if genMaxValue > 0 {
		maxMsg = min(maxMsg, genMaxValue)
		if rng.IntN(3) == 0 {
			return nil // empty messages are the corner case of every framing layer
		}
	}
	if valueMode == "limits" {
		switch rng.IntN(7) {
		case 0:
			return randBytes(rng, max(0, maxMsg-1), nil)
		case 1:
			return randBytes(rng, maxMsg, nil)
		case 2:
			return randBytes(rng, maxMsg+1, nil)
		case 3:
			return randBytes(rng, maxMsg/2, nil) // hexa doubles it to exactly the limit (for even limits)
		case 4:
			return randBytes(rng, maxMsg/2+1, nil)
		case 5: // compression bomb: a few bytes on the wire, far more when inflated (kept below ~4 kB so the
			// list-based model stays fast; ratios up to 120:1 occur with the small limits)
			return bytesRepeat(byte('a'+rng.IntN(3)), min(maxMsg*(2+rng.IntN(60)), 2*maxMsg+2000))
		default:
			return randBytes(rng, rng.IntN(6), nil)
		}
	}
	switch rng.IntN(8) {
	case 0:
		return nil
	case 1: // long run: highly compressible
		return bytesRepeat(byte('a'+rng.IntN(3)), 1+rng.IntN(3*maxMsg+2))
	case 2: // around the limit
		return randBytes(rng, max(0, maxMsg-2+rng.IntN(5)), nil)
	case 3:
		return randBytes(rng, max(0, maxMsg/2-1+rng.IntN(3)), nil)
	default:
		return randBytes(rng, rng.IntN(12), nil)
	}
}

func bytesRepeat(c byte, n int) []byte {
	b := make([]byte, n)
	for i := range b {
		b[i] = c
	}
	return b
}

func splitChunks(rng *rand.Rand, b []byte) []string {
	if len(b) == 0 {
		return nil
	}
	var out []string
	switch rng.IntN(4) {
	case 0:
		return []string{hx(b)}
	case 1: // byte at a time
		for _, c := range b {
			out = append(out, hx([]byte{c}))
		}
		return out
	}
	for len(b) > 0 {
		n := 1 + rng.IntN(min(len(b), 9))
		out = append(out, hx(b[:n]))
		b = b[n:]
	}
	return out
}

var appHeaderPool = [][2]string{{"X-Foo", "bar"}, {"X-Foo", "baz, qux"}, {"X-Data-Bin", "AAEC/w"}, {"Authorization", "Bearer t0k"},
	{"X-Empty", ""}, {"Te", "trailers"}, {"User-Agent", "verif/1"}, {"X-Ünï", "v"}, {"Accept", "*/*"}}

var timeoutPool = []string{"", "", "", "5S", "100m", "99999999n", "9H", "1H", "0n", "1s", "S", "-1S", "1.5S", "100000000S", "100000000H", "123456789H", "99999999H", "8H", "00000009H", "100000000m"}
var connectTimeoutPool = []string{"", "", "", "0", "250", "9999999999", "10000000000", "99999999999999999999", "-1", "abc", "1.5"}

type clientPlan struct {
	proto string // grpc grpcweb connect-stream connect-unary connect-get
	codec string
	comp  string
}

// buildRequest fills sc.Req for the chosen method and client plan; returns the message values sent.
func buildRequest(rng *rand.Rand, sc *Scenario, m methodInfo, cp clientPlan, hostile bool, e *Emitter) {
	maxMsg := int(sc.Cfg.MaxMsg)
	sc.gen.reqClean = !hostile
	path := "/verif.v1.Svc/" + m.name
	if rng.IntN(25) == 0 {
		sc.gen.reqClean = false
		path = pick(rng, []string{"/verif.v1.Svc/Nope", "/verif.v1.Other/Unary", "/", "/verif.v1.Svc/Unary/", "/verif.v1.Svc"})
		e.Class("req:unknown-path")
	}
	sc.Req.Path = hs(path)
	sc.Req.ProtoMajor = 2
	if hostile && rng.IntN(3) == 0 || cp.proto != "grpc" && !(m.clientStr && m.serverStr) && rng.IntN(4) == 0 {
		sc.Req.ProtoMajor = 1
	}
	sc.Req.BodyEnd = "eof"
	if rng.IntN(4) == 0 {
		sc.Req.BodyEnd = "eofdata"
	}
	sc.Req.ContentLength = -1
	add := func(k, v string) { sc.Req.Headers = append(sc.Req.Headers, []string{hs(k), hs(v)}) }
	nmsg := 1
	if m.clientStr {
		nmsg = rng.IntN(genMaxMsgs)
	} else if rng.IntN(12) == 0 {
		nmsg = pick(rng, []int{0, 2})
		sc.gen.reqClean = false
	}
	var values [][]byte
	for i := 0; i < nmsg; i++ {
		values = append(values, randValue(rng, maxMsg))
	}
	sc.gen.reqValues = values
	accept := subset(rng, []string{"Z", "Y", "gzip", "bogus"}, false)
	var body []byte
	method := "POST"
	sc.ClientProto = cp.proto
	switch cp.proto {
	case "grpc", "grpcweb", "connect-stream":
		ct := map[string]string{"grpc": "application/grpc", "grpcweb": "application/grpc-web", "connect-stream": "application/connect"}[cp.proto]
		if cp.codec == "proto-short" {
			add("Content-Type", ct)
		} else {
			add("Content-Type", ct+"+"+cp.codec)
		}
		encHdr, accHdr, toHdr, toPool := "Grpc-Encoding", "Grpc-Accept-Encoding", "Grpc-Timeout", timeoutPool
		if cp.proto == "connect-stream" {
			encHdr, accHdr, toHdr, toPool = "Connect-Content-Encoding", "Connect-Accept-Encoding", "Connect-Timeout-Ms", connectTimeoutPool
		}
		if cp.comp != "" {
			add(encHdr, cp.comp)
		}
		if len(accept) > 0 {
			add(accHdr, strings.Join(accept, ","))
		}
		if t := pick(rng, toPool); t != "" && (hostile || rng.IntN(3) == 0) {
			if !hostile {
				t = pick(rng, toPool[3:6]) // the valid ones
			}
			add(toHdr, t)
		}
		if cp.proto == "grpc" && rng.IntN(3) != 0 {
			add("Te", "trailers")
		}
		for _, v := range values {
			payload := encodeValue(cp.codec, v)
			flags := byte(0)
			if cp.comp != "" && cp.comp != "identity" && rng.IntN(4) != 0 {
				payload = compressValue(cp.comp, payload)
				flags = 1
			}
			body = append(body, envelope(flags, payload)...)
		}
	case "connect-get":
		sc.ClientProto = "connect-unary" // same response format
		method = "GET"
		q := url.Values{}
		q.Set("connect", "v1")
		q.Set("encoding", cp.codec)
		var payload []byte
		for _, v := range values {
			payload = append(payload, encodeValue(cp.codec, v)...)
		}
		if cp.comp != "" && cp.comp != "identity" {
			q.Set("compression", cp.comp)
			if len(payload) > 0 || rng.IntN(2) == 0 {
				payload = compressValue(cp.comp, payload)
			}
		} else if cp.comp == "identity" && rng.IntN(2) == 0 {
			q.Set("compression", "identity")
		}
		switch {
		case cp.codec != "hexa" || cp.comp != "" && cp.comp != "identity" || rng.IntN(3) == 0:
			q.Set("base64", "1")
			if rng.IntN(3) == 0 {
				q.Set("message", base64.URLEncoding.EncodeToString(payload)) // padded form is accepted too
			} else {
				q.Set("message", base64.RawURLEncoding.EncodeToString(payload))
			}
		default:
			q.Set("message", string(payload))
			if rng.IntN(3) == 0 {
				q.Set("base64", "0")
			}
		}
		if hostile {
			switch rng.IntN(4) {
			case 0:
				q.Set("base64", "2")
			case 1:
				q.Set("message", "!!not-base64!!")
				q.Set("base64", "1")
			case 2:
				q.Del("connect")
				add("Connect-Protocol-Version", "1")
			}
		} else if rng.IntN(5) == 0 {
			// legal: a GET marked as Connect by the protocol-version header only
			q.Del("connect")
			add("Connect-Protocol-Version", "1")
		}
		sc.Req.Query = hs(q.Encode())
		if len(accept) > 0 {
			add("Accept-Encoding", strings.Join(accept, ", "))
		}
		if t := pick(rng, connectTimeoutPool); t != "" && (hostile || rng.IntN(3) == 0) {
			if !hostile {
				t = pick(rng, connectTimeoutPool[3:6])
			}
			add("Connect-Timeout-Ms", t)
		}
		if rng.IntN(6) == 0 {
			add("Content-Type", "application/"+cp.codec)
		}
		if rng.IntN(10) == 0 {
			body = []byte("x") // a GET must not carry a body
			sc.gen.reqClean = false
		}
	case "connect-unary":
		add("Content-Type", "application/"+cp.codec)
		if rng.IntN(8) != 0 {
			add("Connect-Protocol-Version", "1")
		}
		if cp.comp != "" {
			add("Content-Encoding", cp.comp)
		}
		if len(accept) > 0 {
			add("Accept-Encoding", strings.Join(accept, ", "))
		}
		if t := pick(rng, connectTimeoutPool); t != "" && (hostile || rng.IntN(3) == 0) {
			if !hostile {
				t = pick(rng, connectTimeoutPool[3:6])
			}
			add("Connect-Timeout-Ms", t)
		}
		for _, v := range values { // more than one value = concatenated garbage, on purpose
			payload := encodeValue(cp.codec, v)
			if cp.comp != "" && cp.comp != "identity" {
				payload = compressValue(cp.comp, payload)
			}
			body = append(body, payload...)
		}
		switch rng.IntN(4) {
		case 0:
			sc.Req.ContentLength = int64(len(body))
		case 1:
			if rng.IntN(3) == 0 {
				sc.Req.ContentLength = int64(len(body)) + int64(rng.IntN(3)) - 1
				sc.gen.reqClean = false
			}
		}
	}
	if hostile && rng.IntN(3) == 0 {
		method = pick(rng, []string{"GET", "PUT", "DELETE", "HEAD", "POST"})
	}
	sc.Req.Method = hs(method)
	for i := rng.IntN(3); i > 0; i-- {
		h := pick(rng, appHeaderPool)
		add(h[0], h[1])
	}
	// faults
	faultDie := 40
	if hostile {
		faultDie = 7
	}
	fault := rng.IntN(faultDie)
	if !hostile && genHostileDie < 5 && rng.IntN(4) == 0 {
		fault = 4 // history stream: plenty of requests whose compressed payload has a bad header
	}
	switch fault {
	case 0: // cut the body
		if len(body) > 0 {
			cut := rng.IntN(len(body))
			if len(body) > 5 && rng.IntN(3) == 0 {
				cut = 5 // the envelope arrives, not one byte of the message it announces
			}
			body = body[:cut]
			if rng.IntN(2) == 0 {
				sc.Req.BodyEnd = "unexpected"
			}
			e.Class("req:cut")
			sc.gen.reqClean = false
		}
	case 1: // corrupt a flag byte
		if len(body) >= 5 {
			body[0] = pick(rng, []byte{2, 3, 0x80, 0x81, 0x82, 4, 0xff, byte(rng.IntN(256)), byte(rng.IntN(256))})
			e.Class("req:flag")
			sc.gen.reqClean = false
		}
	case 2: // misstate a length
		if len(body) >= 5 {
			n := binary.BigEndian.Uint32(body[1:5])
			binary.BigEndian.PutUint32(body[1:5], n+uint32(rng.IntN(5))-2)
			e.Class("req:length")
			sc.gen.reqClean = false
		}
	case 3: // flip a payload byte (may corrupt hexa text or an RLE pair)
		if len(body) > 5 {
			body[5+rng.IntN(len(body)-5)] ^= byte(1 << rng.IntN(8))
			e.Class("req:corrupt")
			sc.gen.reqClean = false
		}
	case 4: // break the first byte of the (possibly compressed) payload: a bad compression header
		switch {
		case len(body) > 5 && rng.IntN(2) == 0:
			body[5] ^= 0x40
		case len(body) > 0:
			body[0] ^= 0x40
		}
		e.Class("req:corrupt-head")
		sc.gen.reqClean = false
	}
	sc.Req.Body = splitChunks(rng, body)
}

// serverSide describes how the backend is addressed (learned from the probe run).
type serverSide struct {
	proto  string // grpc grpcweb connect-stream connect-unary other
	codec  string
	accept []string
}

func probe(sc *Scenario) (serverSide, bool) {
	p := *sc
	p.Script = [][]string{{"readall", "64"}}
	var got http.Header
	func() {
		// run with a recording of the backend request only
		out := runScenarioRaw(&p)
		got = out
	}()
	if got == nil {
		return serverSide{}, false
	}
	ct := got.Get("Content-Type")
	var ss serverSide
	switch {
	case strings.HasPrefix(ct, "application/connect+"):
		ss.proto, ss.codec = "connect-stream", strings.TrimPrefix(ct, "application/connect+")
		ss.accept = splitList(got.Get("Connect-Accept-Encoding"))
	case strings.HasPrefix(ct, "application/grpc-web"):
		ss.proto, ss.codec = "grpcweb", strings.TrimPrefix(strings.TrimPrefix(ct, "application/grpc-web"), "+")
		ss.accept = splitList(got.Get("Grpc-Accept-Encoding"))
	case strings.HasPrefix(ct, "application/grpc"):
		ss.proto, ss.codec = "grpc", strings.TrimPrefix(strings.TrimPrefix(ct, "application/grpc"), "+")
		ss.accept = splitList(got.Get("Grpc-Accept-Encoding"))
	case strings.HasPrefix(ct, "application/"):
		ss.proto, ss.codec = "connect-unary", strings.TrimPrefix(ct, "application/")
		ss.accept = splitList(got.Get("Accept-Encoding"))
	default:
		ss.proto = "other"
	}
	return ss, true
}

func splitList(s string) []string {
	var out []string
	for _, p := range strings.Split(s, ",") {
		if p = strings.TrimSpace(p); p != "" {
			out = append(out, p)
		}
	}
	return out
}

// runScenarioRaw runs the scenario and returns the headers the backend saw (nil if not dispatched).
func runScenarioRaw(sc *Scenario) http.Header {
	var hdr http.Header
	saved := observeBackend
	observeBackend = func(run *backendRun) {
		if run.calls == 1 {
			hdr = run.reqHdr
		}
	}
	_ = runScenario(sc, false)
	observeBackend = saved
	return hdr
}

var observeBackend func(run *backendRun)

var codeNames = []string{"", "canceled", "unknown", "invalid_argument", "deadline_exceeded", "not_found", "already_exists",
	"permission_denied", "resource_exhausted", "failed_precondition", "aborted", "out_of_range", "unimplemented", "internal",
	"unavailable", "data_loss", "unauthenticated"}

var errMsgPool = []string{"boom", "", "fiancée ☃", "50% off: a+b=c", "line1\nline2", "tab\tquote\"back\\slash", "<b>&amp;</b>", "\x7f\x00", "%zz"}

var trailerPool = [][2]string{{"X-Trailer", "t1"}, {"X-Trailer", "t2"}, {"X-Count-Bin", "AQID"}, {"x-lower", "v"}, {"X-Empty", ""}}

// buildResponse creates the backend script for the server side learned by the probe.
func buildResponse(rng *rand.Rand, sc *Scenario, m methodInfo, ss serverSide, e *Emitter) {
	maxMsg := int(sc.Cfg.MaxMsg)
	var script [][]string
	sc.gen.respClean = true
	readsAll := true
	var respValues [][]byte
	newValue := func() []byte {
		v := randValue(rng, maxMsg)
		respValues = append(respValues, v)
		return v
	}
	// request consumption pattern
	switch rng.IntN(5) {
	case 4:
		script = append(script, []string{"readfix", fmt.Sprint(1 + rng.IntN(12)), fmt.Sprint(1 + rng.IntN(16))}, []string{"readall", "64"})
	case 0:
		script = append(script, []string{"readall", fmt.Sprint(1 + rng.IntN(8))})
	case 1:
		script = append(script, []string{"readall", "1"})
	case 2:
		script = append(script, []string{"readn", fmt.Sprint(1 + rng.IntN(12)), fmt.Sprint(1 + rng.IntN(6))}, []string{"readall", "512"})
	default:
		script = append(script, []string{"readall", "4096"})
	}
	if rng.IntN(15) == 0 {
		script = nil // does not read the request at all
		readsAll = false
		e.Class("resp:no-read")
	}
	switch rng.IntN(12) {
	case 0: // the handler closes the request body when it is done with it
		script = append(script, []string{"close"})
		e.Class("resp:close-body")
	case 1: // ... twice (explicit Close plus a deferred one), harmless for net/http bodies
		script = append(script, []string{"close"}, []string{"close"})
		e.Class("resp:close-body-twice")
	case 2: // ... early, and reads on
		if len(script) > 0 && rng.IntN(2) == 0 {
			script = append([][]string{script[0], {"close"}}, script[1:]...)
			script = append(script, []string{"readall", "16"})
			readsAll = false
			e.Class("resp:close-then-read")
		}
	}
	sethdr := func(k, v string) { script = append(script, []string{"sethdr", hs(k), hs(v)}) }
	addhdr := func(k, v string) { script = append(script, []string{"addhdr", hs(k), hs(v)}) }
	nmsg := 1
	if m.serverStr {
		nmsg = rng.IntN(genMaxMsgs)
	} else if rng.IntN(12) == 0 {
		nmsg = pick(rng, []int{0, 2})
		sc.gen.respClean = false
	}
	respComp := ""
	var usable []string // the model cannot compute real gzip: never let the backend answer with it
	for _, a := range ss.accept {
		if a != "gzip" {
			usable = append(usable, a)
		}
	}
	if len(usable) > 0 && rng.IntN(2) == 0 {
		respComp = pick(rng, usable)
	}
	if rng.IntN(20) == 0 {
		respComp = pick(rng, []string{"Y", "Z", "bogus", "identity"})
		sc.gen.respClean = false
	}
	var errCode uint32
	errMsg := ""
	if rng.IntN(3) == 0 {
		errCode = uint32(1 + rng.IntN(16))
		if rng.IntN(12) == 0 {
			errCode = pick(rng, []uint32{17, 18, 99, 4294967295})
			sc.gen.respClean = false
		}
		errMsg = pick(rng, errMsgPool)
		sc.Relayed = append(sc.Relayed, hs(errMsg))
	}
	// typed error details (values chosen so that their base64 needs '+' and '/')
	var details []*anypb.Any
	if errCode != 0 && rng.IntN(3) == 0 {
		for k := 1 + rng.IntN(2); k > 0; k-- {
			d, _ := anypb.New(wrapperspb.Bytes(pick(rng, [][]byte{{0xff, 0xfe, 0xfd}, {0xfb, 0xef, 0xbe}, []byte("plain"), {0x3e, 0x3f, 0xff}})))
			details = append(details, d)
		}
		e.Class("resp:error-details")
	}
	detailsBin := ""
	if len(details) > 0 {
		bin, _ := proto.Marshal(&status.Status{Code: int32(errCode), Message: errMsg, Details: details})
		detailsBin = connect.EncodeBinaryHeader(bin)
		if sc.StatusBin == nil {
			sc.StatusBin = map[string]JSONEndEntry{}
		}
		sc.StatusBin[hs(detailsBin)] = JSONEndEntry{Valid: true, HasErr: true, Code: errCode, Msg: hs(errMsg), Details: len(details)}
	}
	jsonDetails := func() []map[string]any {
		var out []map[string]any
		for _, d := range details {
			out = append(out, map[string]any{"type": strings.TrimPrefix(d.GetTypeUrl(), "type.googleapis.com/"),
				"value": base64.RawStdEncoding.EncodeToString(d.GetValue())})
		}
		return out
	}
	var trailers [][2]string
	for i := rng.IntN(3); i > 0; i-- {
		trailers = append(trailers, pick(rng, trailerPool))
	}
	var respHeaders [][2]string
	for i := rng.IntN(3); i > 0; i-- {
		h := pick(rng, appHeaderPool)
		addhdr("X-Resp-"+strings.TrimPrefix(h[0], "X-"), h[1])
		respHeaders = append(respHeaders, [2]string{"X-Resp-" + strings.TrimPrefix(h[0], "X-"), h[1]})
	}
	var body []byte
	codec := ss.codec
	if rng.IntN(25) == 0 {
		codec = pick(rng, []string{"raw", "hexa", "rev", "bogus"})
		sc.gen.respClean = sc.gen.respClean && codec == ss.codec
		e.Class("resp:wrong-codec")
	}
	frames := func() {
		for i := 0; i < nmsg; i++ {
			payload := encodeValue(ss.codec, newValue())
			flags := byte(0)
			if respComp != "" && respComp != "identity" && respComp != "bogus" && rng.IntN(4) != 0 {
				payload = compressValue(respComp, payload)
				flags = 1
			}
			body = append(body, envelope(flags, payload)...)
		}
	}
	status := 200
	endPayloadLen := 0 // size of the end-of-stream message / error body the backend writes (it is buffered too)
	trailersOnlyUsed := false
	bare := rng.IntN(14) == 0
	switch ss.proto {
	case "grpc", "grpcweb":
		prefix := map[string]string{"grpc": "application/grpc", "grpcweb": "application/grpc-web"}[ss.proto]
		sethdr("Content-Type", prefix+"+"+codec)
		if respComp != "" {
			sethdr("Grpc-Encoding", respComp)
		}
		trailersOnly := errCode != 0 && rng.IntN(2) == 0
		trailersOnlyUsed = trailersOnly
		statusHdrs := func(prefix string) {
			sethdr(prefix+"Grpc-Status", fmt.Sprint(errCode))
			if errCode != 0 || rng.IntN(2) == 0 {
				sethdr(prefix+"Grpc-Message", vanguard.VerifGRPCPercentEncode(errMsg))
			}
			if detailsBin != "" {
				sethdr(prefix+"Grpc-Status-Details-Bin", detailsBin)
			}
			for _, t := range trailers {
				addhdr(prefix+t[0], t[1])
			}
		}
		if !trailersOnly {
			frames()
		}
		if ss.proto == "grpc" {
			if trailersOnly {
				statusHdrs("")
				script = append(script, []string{"status", "200"})
			} else {
				declared := rng.IntN(2) == 0
				if declared {
					names := []string{"Grpc-Status", "Grpc-Message"}
					if detailsBin != "" {
						names = append(names, "Grpc-Status-Details-Bin")
					}
					for _, t := range trailers {
						names = append(names, t[0])
					}
					sethdr("Trailer", strings.Join(names, ", "))
				}
				script = append(script, []string{"status", "200"})
				script = append(script, writeOps(rng, body)...)
				if declared {
					statusHdrs("")
				} else {
					statusHdrs(http.TrailerPrefix)
				}
			}
		} else { // grpc-web: trailers in a body frame
			if trailersOnly {
				statusHdrs("")
				script = append(script, []string{"status", "200"})
			} else {
				th := http.Header{}
				th.Set("grpc-status", fmt.Sprint(errCode))
				if errCode != 0 {
					th.Set("grpc-message", vanguard.VerifGRPCPercentEncode(errMsg))
				}
				if detailsBin != "" {
					th.Set("grpc-status-details-bin", detailsBin)
				}
				for _, t := range trailers {
					th.Add(strings.ToLower(t[0]), t[1])
				}
				var tb strings.Builder
				_ = th.Write(&tb)
				block := strings.ToLower(tb.String()) // grpc-web peers send lower-case names
				_ = block
				endPayloadLen = len(tb.String())
				body = append(body, envelope(0x80, []byte(tb.String()))...)
				script = append(script, []string{"status", "200"})
				script = append(script, writeOps(rng, body)...)
			}
		}
	case "connect-stream":
		sethdr("Content-Type", "application/connect+"+codec)
		if respComp != "" {
			sethdr("Connect-Content-Encoding", respComp)
		}
		frames()
		end := map[string]any{}
		entry := JSONEndEntry{Valid: true}
		if errCode != 0 {
			name := fmt.Sprintf("code_%d", errCode)
			if int(errCode) < len(codeNames) {
				name = codeNames[errCode]
			}
			errObj := map[string]any{"code": name, "message": errMsg}
			if len(details) > 0 {
				errObj["details"] = jsonDetails()
			}
			end["error"] = errObj
			entry.HasErr, entry.Code, entry.Msg = true, errCode, hs(errMsg)
		}
		if len(trailers) > 0 {
			md := http.Header{}
			for _, t := range trailers {
				md.Add(t[0], t[1])
			}
			end["metadata"] = md
		}
		payload, _ := json.Marshal(end)
		if rng.IntN(10) == 0 {
			payload = []byte(`{"error": nope`)
			sc.gen.respClean = false
			e.Class("resp:bad-end-json")
		}
		fillJSONEntry(&entry, payload)
		if sc.JSONEnd == nil {
			sc.JSONEnd = map[string]JSONEndEntry{}
		}
		sc.JSONEnd[hx(payload)] = entry
		endPayloadLen = len(payload)
		body = append(body, envelope(2, payload)...)
		script = append(script, []string{"status", "200"})
		script = append(script, writeOps(rng, body)...)
	case "connect-unary":
		for _, t := range trailers {
			addhdr("Trailer-"+t[0], t[1])
		}
		if errCode != 0 {
			status = map[uint32]int{3: 400, 5: 404, 7: 403, 8: 429, 12: 501, 13: 500, 14: 503, 16: 401}[errCode]
			if status == 0 {
				status = 500
			}
			sethdr("Content-Type", "application/json")
			name := fmt.Sprintf("code_%d", errCode)
			if int(errCode) < len(codeNames) {
				name = codeNames[errCode]
			}
			errObj := map[string]any{"code": name, "message": errMsg}
			if len(details) > 0 {
				errObj["details"] = jsonDetails()
			}
			payload, _ := json.Marshal(errObj)
			if rng.IntN(20) == 0 {
				payload = []byte("<html>oops</html>")
				sc.gen.respClean = false
			}
			entry := JSONEndEntry{}
			fillJSONErrEntry(&entry, payload)
			if sc.JSONErr == nil {
				sc.JSONErr = map[string]JSONEndEntry{}
			}
			sc.JSONErr[hx(payload)] = entry
			endPayloadLen = len(payload)
			body = payload
			if (respComp == "Z" || respComp == "Y") && rng.IntN(2) == 0 {
				// a Connect backend may compress its error body like any other unary response
				body = compressValue(respComp, payload)
				sethdr("Content-Encoding", respComp)
				e.Class("resp:compressed-error-body")
			}
		} else {
			sethdr("Content-Type", "application/"+codec)
			for i := 0; i < nmsg; i++ {
				payload := encodeValue(ss.codec, newValue())
				if respComp != "" && respComp != "identity" && respComp != "bogus" {
					payload = compressValue(respComp, payload)
				}
				body = append(body, payload...)
			}
			if respComp != "" {
				sethdr("Content-Encoding", respComp)
			}
		}
		switch rng.IntN(4) {
		case 0:
			sethdr("Content-Length", fmt.Sprint(len(body)))
		case 1:
			if rng.IntN(4) == 0 {
				sethdr("Content-Length", fmt.Sprint(len(body)+rng.IntN(3)-1))
				sc.gen.respClean = false
			}
		}
		script = append(script, []string{"status", fmt.Sprint(status)})
		script = append(script, writeOps(rng, body)...)
	default:
		script = append(script, []string{"status", "200"}, []string{"write", hs("hello")})
	}
	if bare { // bare HTTP failure without protocol information
		script = script[:min(len(script), 1)]
		script = append(script, []string{"sethdr", hs("Content-Type"), hs("text/plain")},
			[]string{"status", fmt.Sprint(pick(rng, []int{400, 401, 403, 404, 429, 500, 502, 503, 504, 418, 302, 204}))},
			[]string{"write", hs("upstream says no")})
		sc.gen.respClean = false
		e.Class("resp:bare-http")
	}
	// response-side faults
	switch rng.IntN(16) {
	case 0: // return early: drop a suffix of the script
		if len(script) > 1 {
			script = script[:1+rng.IntN(len(script)-1)]
			e.Class("resp:early-return")
			sc.gen.respClean = false
		}
	case 1: // write after the end
		last := -1
		for i := range script {
			if script[i][0] == "write" && script[i][1] != "-" {
				last = i
			}
		}
		if last >= 0 && rng.IntN(2) == 0 {
			// ... in the same Write call as the end of the stream
			script[last] = []string{"write", script[last][1] + hx(pick(rng, [][]byte{[]byte("xyz"), envelope(0, []byte("late")), {0}}))}
			e.Class("resp:stray-bytes-same-write")
		} else {
			script = append(script, []string{"write", hx(envelope(0, []byte("late")))})
			e.Class("resp:late-write")
		}
		sc.gen.respClean = false
	case 2: // corrupt a written byte
		for i := range script {
			if script[i][0] == "write" && script[i][1] != "-" {
				b := unhx(script[i][1])
				b[rng.IntN(len(b))] ^= byte(1 << rng.IntN(8))
				script[i][1] = hx(b)
				e.Class("resp:corrupt-byte")
				sc.gen.respClean = false
				break
			}
		}
	case 3, 4, 5: // stop writing a few bytes (around the envelope size) before the end of a message, then finish as usual
		first, last := -1, -1
		var body []byte
		for i := range script {
			if script[i][0] == "write" && script[i][1] != "-" {
				if first < 0 {
					first = i
				}
				last = i
				body = append(body, unhx(script[i][1])...)
			}
		}
		// message ends inside the written body (envelopes of the enveloped target protocols)
		var ends []int
		for off := 0; off+5 <= len(body); {
			n := int(binary.BigEndian.Uint32(body[off+1 : off+5]))
			if body[off]&0x82 != 0 || n > len(body)-off-5 {
				break
			}
			off += 5 + n
			if n > 0 {
				ends = append(ends, off)
			}
		}
		if first >= 0 && len(ends) > 0 && ss.proto != "connect-unary" && ss.proto != "other" {
			end := pick(rng, ends)
			d := 1 + rng.IntN(7)
			if rng.IntN(2) == 0 {
				d = 5 // exactly an envelope's length is missing
			}
			if end-d > 0 {
				var ns [][]string
				ns = append(ns, script[:first]...)
				ns = append(ns, writeOps(rng, body[:end-d])...)
				for _, op := range script[last+1:] {
					if op[0] != "write" {
						ns = append(ns, op)
					}
				}
				script = ns
				e.Class(fmt.Sprintf("resp:stop-%d-before-message-end", d))
				sc.gen.respClean = false
			}
		}
	}
	sc.Script = script
	rebuildTables(sc, ss)
	if ss.proto == "other" {
		sc.gen.respClean = false
	}
	if sc.gen.reqClean && sc.gen.respClean {
		ex := &Expectation{ErrCode: errCode, ErrMsg: hs(errMsg), Details: len(details), ReadsAll: readsAll, SizesSafe: endPayloadLen <= maxMsg, TrailersInHeaders: trailersOnlyUsed}
		if errCode != 0 && (ss.proto == "connect-unary" || trailersOnlyUsed) {
			respValues = nil // an error answered in the headers / by a unary backend carries no message
		}
		for _, v := range sc.gen.reqValues {
			ex.ReqValues = append(ex.ReqValues, hx(v))
			ex.SizesSafe = ex.SizesSafe && 4*len(v)+2 <= maxMsg
		}
		for _, v := range respValues {
			ex.RespValues = append(ex.RespValues, hx(v))
			ex.SizesSafe = ex.SizesSafe && 4*len(v)+2 <= maxMsg
		}
		for _, t := range trailers {
			ex.Trailers = append(ex.Trailers, []string{hs(t[0]), hs(t[1])})
		}
		for _, h := range respHeaders {
			ex.RespHeaders = append(ex.RespHeaders, []string{hs(h[0]), hs(h[1])})
		}
		sc.Expect = ex
		e.Class("expect:clean")
		if ex.SizesSafe {
			e.Class("expect:clean+sizes-safe")
		}
	}
}

// rebuildTables derives the JSON tables from what the final script really writes (faults may
// have changed the payloads after they were generated).
func rebuildTables(sc *Scenario, ss serverSide) {
	var body []byte
	for _, op := range sc.Script {
		if op[0] == "write" {
			body = append(body, unhx(op[1])...)
		}
	}
	sc.JSONEnd, sc.JSONErr = map[string]JSONEndEntry{}, map[string]JSONEndEntry{}
	sc.StatusBin = map[string]JSONEndEntry{}
	addBin := func(text string) {
		entry := JSONEndEntry{}
		if raw, err := connect.DecodeBinaryHeader(text); err == nil {
			var st status.Status
			if err := proto.Unmarshal(raw, &st); err == nil {
				entry = JSONEndEntry{Valid: true, HasErr: true, Code: uint32(st.GetCode()), Msg: hs(st.GetMessage()), Details: len(st.GetDetails())}
			}
		}
		sc.StatusBin[hs(text)] = entry
	}
	for _, op := range sc.Script {
		if (op[0] == "sethdr" || op[0] == "addhdr") && strings.HasSuffix(strings.ToLower(unhs(op[1])), "grpc-status-details-bin") {
			addBin(unhs(op[2]))
		}
	}
	var e JSONEndEntry
	fillJSONErrEntry(&e, body)
	sc.JSONErr[hx(body)] = e
	// a compressed error body is looked up by what it inflates to
	for _, tag := range []byte{'Z', 'Y'} {
		if plain, err := rleDecompress(tag, body); err == nil && len(body) > 0 {
			var e JSONEndEntry
			fillJSONErrEntry(&e, plain)
			sc.JSONErr[hx(plain)] = e
		}
	}
	for b := body; len(b) >= 5; {
		n := int(binary.BigEndian.Uint32(b[1:5]))
		if len(b) < 5+n {
			break
		}
		if b[0]&2 != 0 {
			var e JSONEndEntry
			fillJSONEntry(&e, b[5:5+n])
			sc.JSONEnd[hx(b[5:5+n])] = e
		}
		if b[0]&0x80 != 0 {
			for _, line := range strings.Split(string(b[5:5+n]), "\r\n") {
				if k, v, ok := strings.Cut(line, ":"); ok && strings.EqualFold(strings.TrimSpace(k), "grpc-status-details-bin") {
					addBin(strings.TrimSpace(v))
				}
			}
		}
		b = b[5+n:]
	}
}

func fillJSONEntry(entry *JSONEndEntry, payload []byte) {
	hasErr, werr, meta, err := vanguard.VerifParseConnectEndStream(payload)
	*entry = JSONEndEntry{Valid: err == nil, HasErr: hasErr, Code: werr.Code, Msg: hs(werr.Message), Details: werr.Details}
	for k, vs := range meta {
		row := []string{hs(k)}
		for _, v := range vs {
			row = append(row, hs(v))
		}
		entry.Meta = append(entry.Meta, row)
	}
}

func fillJSONErrEntry(entry *JSONEndEntry, payload []byte) {
	werr, err := vanguard.VerifParseConnectUnaryError(payload)
	*entry = JSONEndEntry{Valid: err == nil, HasErr: err == nil, Code: werr.Code, Msg: hs(werr.Message), Details: werr.Details}
}

func writeOps(rng *rand.Rand, body []byte) [][]string {
	var ops [][]string
	if len(body) == 0 && rng.IntN(2) == 0 {
		// a body of zero bytes: no Write call at all, or an empty one
		return [][]string{{"write", "-"}}
	}
	for _, c := range splitChunks(rng, body) {
		ops = append(ops, []string{"write", c})
		if rng.IntN(6) == 0 {
			ops = append(ops, []string{"flush"})
		}
		if rng.IntN(30) == 0 {
			ops = append(ops, []string{"write", "-"}) // empty write
		}
	}
	return ops
}

func streamE2E(e *Emitter, rng *rand.Rand, tier string) {
	n := 1500
	if tier == "thorough" {
		n = 40000
	}
	for i := 0; i < n; i++ {
		sc := genScenario(e, rng)
		raw, _ := json.Marshal(sc)
		e.Emit("e2e " + hex.EncodeToString(raw))
	}
	// directed families: conjunctions of choices that are rare under independent draws (a particular
	// fault AND a client whose end does not travel in the body AND a converting target ...) are drawn
	// by rejection sampling from the same generator, so that every run has some of each
	has := func(xs []string, x string) bool { return slices.Contains(xs, x) }
	classWith := func(cl map[string]int, prefix string) bool {
		for k := range cl {
			if strings.HasPrefix(k, prefix) {
				return true
			}
		}
		return false
	}
	families := []struct {
		label string
		pred  func(sc *Scenario, cl map[string]int) bool
	}{
		// the backend stops exactly an envelope's length before the end of a message and then reports success;
		// the client is told the outcome outside the body (Connect unary, gRPC), the target converts
		{"stop-5-then-success/unary-client", func(sc *Scenario, cl map[string]int) bool {
			return cl["resp:stop-5-before-message-end"] > 0 && sc.ClientProto == "connect-unary" && !has(sc.Cfg.Protocols, "connect")
		}},
		{"stop-5-then-success/grpc-client", func(sc *Scenario, cl map[string]int) bool {
			return cl["resp:stop-5-before-message-end"] > 0 && sc.ClientProto == "grpc" && !has(sc.Cfg.Protocols, "grpc")
		}},
		{"stop-near-end/unary-client", func(sc *Scenario, cl map[string]int) bool {
			return classWith(cl, "resp:stop-") && sc.ClientProto == "connect-unary" && !has(sc.Cfg.Protocols, "connect")
		}},
		// a cut request body towards a converting target
		{"req-cut/converting-target", func(sc *Scenario, cl map[string]int) bool {
			return cl["req:cut"] > 0 && ((sc.ClientProto == "grpc" && !has(sc.Cfg.Protocols, "grpc")) || (sc.ClientProto == "grpcweb" && !has(sc.Cfg.Protocols, "grpcweb")))
		}},
	}
	// mutated families: a clean scenario of a given shape, then changed in a way no independent draw produces.
	// answer-first-then-bad-envelope: an enveloped client in front of a backend without envelopes (Connect unary); the
	// handler answers first (the response, of undeclared length, is buffered to be measured) and only then drains a
	// request body whose second envelope is illegal - the request side ends the RPC while the response is buffered.
	for k := 0; k < n/50; k++ {
		for try := 0; try < 4000; try++ {
			scratch := &Emitter{kinds: map[string]int{}, classes: map[string]int{}, nontriv: map[string]struct{}{}}
			sc := genScenario(scratch, rng)
			if sc.Expect == nil || !(sc.ClientProto == "grpc" || sc.ClientProto == "grpcweb" || sc.ClientProto == "connect-stream") ||
				len(sc.Cfg.Protocols) != 1 || sc.Cfg.Protocols[0] != "connect" || !strings.HasSuffix(string(unhx(sc.Req.Path)), "/Unary") ||
				len(sc.Req.Body) == 0 || sc.Duplex || len(sc.Gates) > 0 {
				continue
			}
			declares := false
			var answer, reads [][]string
			for _, op := range sc.Script {
				if strings.HasPrefix(op[0], "read") {
					reads = append(reads, op)
					continue
				}
				if op[0] == "sethdr" || op[0] == "addhdr" {
					declares = declares || strings.EqualFold(string(unhx(op[1])), "Content-Length")
				}
				answer = append(answer, op)
			}
			if declares || len(reads) == 0 {
				continue
			}
			sc.Expect = nil
			sc.Req.Body = append(sc.Req.Body, hx([]byte{pick(rng, []byte{0x7f, 2, 0x80, 3}), 0, 0, 0, 0}))
			if sc.Req.ContentLength >= 0 {
				sc.Req.ContentLength += 5
			}
			sc.Script = append(answer, []string{"readall", fmt.Sprint(pick(rng, []int{1, 5, 64}))})
			for c, v := range scratch.classes {
				e.classes[c] += v
			}
			e.Class("directed:answer-first-then-bad-envelope")
			raw, _ := json.Marshal(sc)
			e.Emit("e2e " + hex.EncodeToString(raw))
			break
		}
	}
	per := n / 50
	for _, f := range families {
		for k := 0; k < per; k++ {
			for try := 0; try < 4000; try++ {
				scratch := &Emitter{kinds: map[string]int{}, classes: map[string]int{}, nontriv: map[string]struct{}{}}
				sc := genScenario(scratch, rng)
				if !f.pred(sc, scratch.classes) {
					continue
				}
				for c, v := range scratch.classes {
					e.classes[c] += v
				}
				e.Class("directed:" + f.label)
				raw, _ := json.Marshal(sc)
				e.Emit("e2e " + hex.EncodeToString(raw))
				break
			}
		}
	}
}

// genScenario draws one whole-request scenario (configuration, request, backend script).
// genMaxMsgs bounds (exclusively) the number of messages of a streaming side.
var genMaxMsgs = 4

// genMethods, when set, restricts the methods scenarios are drawn for.
var genMethods []string

// genHostileDie: one request in genHostileDie is hostile (the history stream lowers it).
var genHostileDie = 5

func genScenario(e *Emitter, rng *rand.Rand) *Scenario { return genScenarioWith(e, rng, nil) }

// genScenarioWith draws a scenario; override (if any) fixes the configuration after it was drawn.
func genScenarioWith(e *Emitter, rng *rand.Rand, override func(*Scenario)) *Scenario {
	sc := &Scenario{}
	sc.Cfg.Protocols = subset(rng, []string{"connect", "grpc", "grpcweb"}, true)
	restOnly := false
	switch rng.IntN(15) {
	case 0:
		sc.Cfg.Protocols = append(sc.Cfg.Protocols, "rest")
	case 1:
		// a REST-only service: only its one bound method (Unary) can be served at all; RPC requests
		// for the others end as "not found" after their protocol headers were already taken apart
		sc.Cfg.Protocols = []string{"rest"}
		restOnly = true
	}
	sc.Cfg.Codecs = subset(rng, []string{"raw", "hexa", "rev"}, true)
	sc.Cfg.Compress = subset(rng, []string{"Z", "Y"}, false)
	sc.Cfg.MaxMsg = pick(rng, []uint32{8, 16, 40, 1000, 1000, 1000})
	sc.Cfg.MaxGetURL = pick(rng, []uint32{40, 70, 90, 200})
	sc.Cfg.Unknown = rng.IntN(3) == 0
	if override != nil {
		override(sc)
	}
	m := pick(rng, methods)
	for restOnly && m.name == "Unary" {
		m = pick(rng, methods)
	}
	if len(genMethods) > 0 {
		for !slices.Contains(genMethods, m.name) {
			m = pick(rng, methods)
		}
	}
	hostile := rng.IntN(genHostileDie) == 0 // 20% of the requests may be invalid in their protocol
	cp := clientPlan{codec: pick(rng, []string{"raw", "hexa", "rev"}), comp: pick(rng, []string{"", "", "Z", "Y", "identity"})}
	if hostile {
		cp.codec = pick(rng, []string{"raw", "hexa", "rev", "bogus", ""})
		cp.comp = pick(rng, []string{"", "Z", "Y", "bogus", "gzip"})
		e.Class("req:hostile")
	}
	if (m.clientStr || m.serverStr) != hostile {
		cp.proto = pick(rng, []string{"grpc", "grpcweb", "connect-stream"})
	} else {
		cp.proto = pick(rng, []string{"grpc", "grpcweb", "connect-unary", "connect-unary"})
	}
	if (m.idempotent && rng.IntN(2) == 0) || (!m.clientStr && !m.serverStr && rng.IntN(25) == 0) {
		cp.proto = "connect-get"
	}
	if !hostile && cp.proto != "connect-get" && !restOnly && rng.IntN(10) == 0 {
		// vanguard's built-in proto codec, accepted by the service (so that the messages are never
		// decoded: only their framing changes); gRPC and gRPC-Web may use the short content type
		cp.codec = "proto"
		if cp.proto != "connect-stream" && cp.proto != "connect-unary" && rng.IntN(2) == 0 {
			cp.codec = "proto-short"
		}
		if !slices.Contains(sc.Cfg.Codecs, "proto") {
			sc.Cfg.Codecs = append(sc.Cfg.Codecs, "proto")
		}
		e.Class("req:codec-" + cp.codec)
	}
	buildRequest(rng, sc, m, cp, hostile, e)
	ss, ok := probe(sc)
	if ok {
		buildResponse(rng, sc, m, ss, e)
		e.Class("pair:" + cp.proto + "->" + ss.proto)
	} else {
		sc.Script = [][]string{{"readall", "16"}, {"status", "200"}, {"write", hs("x")}}
		e.Class("pair:" + cp.proto + "->(not dispatched)")
	}
	e.Class("method:" + m.name)
	return sc
}

var histCalls int

func init() {
	streams["history"] = streamHistory
	executors["e2e_hist"] = func(a []string) string {
		// the probe on the transcoder that served everything before it, and on a brand new one.
		// sync.Pool forgets its contents at every garbage collection, which would erase most of
		// the history: collect only every 256 requests.
		if histCalls == 0 {
			debug.SetGCPercent(-1)
		}
		if histCalls++; histCalls%256 == 0 {
			runtime.GC()
		}
		if histCalls%2 == 0 {
			// every other request runs on a single processor and is followed by a look into the compressor
			// and decompressor pools: an object that was put back twice comes out twice
			defer runtime.GOMAXPROCS(runtime.GOMAXPROCS(1))
			used := executors["e2e"]([]string{a[0]})
			if raw, err := hex.DecodeString(a[0]); err == nil {
				sc := &Scenario{}
				if json.Unmarshal(raw, sc) == nil {
					transcoderMu.Lock()
					t, err := buildTranscoder(sc, false)
					transcoderMu.Unlock()
					if err == nil {
						if d := t.VerifPoolDuplicates(48); len(d) > 0 {
							used += " poolviol=" + strings.Join(d, ",")
						}
					}
				}
			}
			return used + " ## " + executors["e2e_fresh"]([]string{a[0]})
		}
		return executors["e2e"]([]string{a[0]}) + " ## " + executors["e2e_fresh"]([]string{a[0]})
	}
	streams["limits"] = func(e *Emitter, rng *rand.Rand, tier string) {
		n := 800
		if tier == "thorough" {
			n = 20000
		}
		valueMode = "limits"
		defer func() { valueMode = "" }()
		for i := 0; i < n; i++ {
			sc := genScenario(e, rng)
			raw, _ := json.Marshal(sc)
			e.Emit("e2e " + hex.EncodeToString(raw))
		}
	}
	streams["getpost"] = streamGetPost
	executors["e2e_getpost"] = func(a []string) string {
		return executors["e2e"]([]string{a[0]}) + " ## " + executors["e2e"]([]string{a[1]})
	}
	streams["chunk"] = streamChunk
	pair := func(a []string) string {
		return projectForChunking(executors["e2e"]([]string{a[0]})) + " ## " + projectForChunking(executors["e2e"]([]string{a[1]}))
	}
	executors["e2e_pair"] = pair
}

// projectForChunking drops what legitimately depends on the segmentation (per-write results).
func projectForChunking(obs string) string {
	var out []string
	for _, f := range strings.Fields(obs) {
		if strings.HasPrefix(f, "bw=") {
			continue
		}
		out = append(out, f)
	}
	return strings.Join(out, " ")
}

// normalizeSegmentation returns the same scenario with the coarsest segmentation: the request
// body in one piece, every read with a huge buffer, consecutive writes merged, no flushes.
func normalizeSegmentation(sc *Scenario) *Scenario {
	raw, _ := json.Marshal(sc)
	var b Scenario
	_ = json.Unmarshal(raw, &b)
	var body []byte
	for _, c := range b.Req.Body {
		body = append(body, unhx(c)...)
	}
	b.Req.Body = nil
	if len(body) > 0 {
		b.Req.Body = []string{hx(body)}
	}
	var script [][]string
	for _, op := range b.Script {
		switch op[0] {
		case "flush":
			continue
		case "readn", "readfix":
			// (a fixed-buffer reader stops after a number of bytes that depends on how the body
			// arrives: that is the handler's choice, not the transcoder's, so the normal form reads
			// an exact number of bytes)
			script = append(script, []string{"readn", op[1], "65536"})
		case "readall":
			script = append(script, []string{"readall", "65536"})
		case "write":
			if n := len(script); n > 0 && script[n-1][0] == "write" {
				script[n-1] = []string{"write", hx(append(unhx(script[n-1][1]), unhx(op[1])...))}
			} else {
				script = append(script, []string{"write", op[1]})
			}
		default:
			script = append(script, op)
		}
	}
	b.Script = script
	return &b
}

// resegment returns the same scenario under another random segmentation.
func resegment(rng *rand.Rand, sc *Scenario) *Scenario {
	b := normalizeSegmentation(sc)
	if len(b.Req.Body) > 0 {
		b.Req.Body = splitChunks(rng, unhx(b.Req.Body[0]))
	}
	var script [][]string
	seenStatus := false
	for _, op := range b.Script {
		if op[0] == "status" {
			seenStatus = true
		}
		if op[0] == "write" && len(unhx(op[1])) == 0 && !seenStatus {
			// an empty Write before WriteHeader sends the head with status 200: not a matter of segmentation
			script = append(script, op)
			continue
		}
		switch op[0] {
		case "readn":
			script = append(script, []string{"readn", op[1], fmt.Sprint(1 + rng.IntN(7))})
		case "readall":
			script = append(script, []string{"readall", fmt.Sprint(pick(rng, []int{1, 2, 3, 4, 5, 6, 7, 64, 4096}))})
		case "write":
			script = append(script, writeOps(rng, unhx(op[1]))...)
		default:
			script = append(script, op)
		}
	}
	b.Script = script
	return b
}

func streamChunk(e *Emitter, rng *rand.Rand, tier string) {
	n := 700
	if tier == "thorough" {
		n = 20000
	}
	for i := 0; i < n; i++ {
		sc := genScenario(e, rng)
		for j, op := range sc.Script {
			if op[0] == "readfix" {
				// how much a fixed-buffer reader takes depends on how the body arrives; that is the
				// handler's doing, so the segmentation pairs use readers that take an exact amount
				sc.Script[j] = []string{"readn", op[1], op[2]}
			}
		}
		a, _ := json.Marshal(normalizeSegmentation(sc))
		var other *Scenario
		if rng.IntN(2) == 0 {
			other = sc
		} else {
			other = resegment(rng, sc)
		}
		b, _ := json.Marshal(other)
		e.Emit("e2e_pair " + hex.EncodeToString(a) + " " + hex.EncodeToString(b))
	}
	// directed: a response body of zero bytes delivered by one empty Write call, against the same without any Write
	// call (seeded change C08_6 was reported by one seed in three before this family existed)
	for k := 0; k < n/20; k++ {
		for try := 0; try < 4000; try++ {
			scratch := &Emitter{kinds: map[string]int{}, classes: map[string]int{}, nontriv: map[string]struct{}{}}
			sc := genScenario(scratch, rng)
			writes, empty := 0, -1
			for j, op := range sc.Script {
				if op[0] == "write" {
					writes++
					if op[1] == "-" {
						empty = j
					}
				}
			}
			if sc.Expect == nil || writes != 1 || empty < 0 || sc.Duplex {
				continue
			}
			a, _ := json.Marshal(normalizeSegmentation(sc))
			other := *sc
			other.Script = append(append([][]string{}, sc.Script[:empty]...), sc.Script[empty+1:]...)
			b, _ := json.Marshal(normalizeSegmentation(&other))
			e.Class("directed:zero-length-body-empty-write-vs-no-write")
			e.Emit("e2e_pair " + hex.EncodeToString(a) + " " + hex.EncodeToString(b))
			break
		}
	}
}

func init() {
	streams["passthru"] = streamPassThru
}

// streamPassThru: requests that need no conversion (the service accepts the client's protocol,
// codec and compression) or that match no endpoint while an unknown-endpoint handler is
// configured. Bodies, headers and responses are arbitrary: nothing may be touched.
func streamPassThru(e *Emitter, rng *rand.Rand, tier string) {
	n := 1200
	if tier == "thorough" {
		n = 30000
	}
	for i := 0; i < n; i++ {
		sc := &Scenario{}
		m := pick(rng, methods)
		hostile := false
		cp := clientPlan{codec: pick(rng, []string{"raw", "hexa", "rev"}), comp: pick(rng, []string{"", "", "Z", "Y", "identity"})}
		if m.clientStr || m.serverStr {
			cp.proto = pick(rng, []string{"grpc", "grpcweb", "connect-stream"})
		} else {
			cp.proto = pick(rng, []string{"grpc", "grpcweb", "connect-unary"})
		}
		unknown := rng.IntN(4) == 0
		// a configuration that accepts the client's triple
		need := map[string]string{"grpc": "grpc", "grpcweb": "grpcweb", "connect-stream": "connect", "connect-unary": "connect"}[cp.proto]
		sc.Cfg.Protocols = subset(rng, []string{"connect", "grpc", "grpcweb"}, false)
		sc.Cfg.Codecs = subset(rng, []string{"raw", "hexa", "rev"}, false)
		sc.Cfg.Compress = subset(rng, []string{"Z", "Y"}, false)
		if !contains(sc.Cfg.Protocols, need) {
			sc.Cfg.Protocols = append(sc.Cfg.Protocols, need)
		}
		if !contains(sc.Cfg.Codecs, cp.codec) {
			sc.Cfg.Codecs = append(sc.Cfg.Codecs, cp.codec)
		}
		if cp.comp != "" && cp.comp != "identity" && !contains(sc.Cfg.Compress, cp.comp) {
			sc.Cfg.Compress = append(sc.Cfg.Compress, cp.comp)
		}
		sc.Cfg.MaxMsg = pick(rng, []uint32{8, 16, 1000})
		sc.Cfg.MaxGetURL = 200
		sc.Cfg.Unknown = unknown || rng.IntN(3) == 0
		buildRequest(rng, sc, m, cp, hostile, e)
		sc.ClientProto = "none" // raw comparison of what the client receives
		if cp.proto == "grpc" {
			sc.Req.ProtoMajor = 2
		}
		if unknown {
			sc.Req.Path = hs(pick(rng, []string{"/verif.v1.Svc/Nope", "/other.Svc/Unary", "/", "/a/b%2Fc/d", "/verif.v1.Svc/Unary/x", "/x%20y"}))
			sc.Req.Method = hs(pick(rng, []string{"GET", "POST", "PUT", "DELETE", "PATCH"}))
			if rng.IntN(2) == 0 {
				sc.Req.Query = hs(pick(rng, []string{"a=b", "connect=v2&x=%zz", "q=1&q=2", "message=%7B%7D"}))
			}
			e.Class("passthru:unknown-endpoint")
		} else {
			e.Class("passthru:" + cp.proto)
		}
		// arbitrary body (may be invalid in the protocol), arbitrary declared length
		if rng.IntN(3) == 0 {
			sc.Req.Body = splitChunks(rng, randBytes(rng, rng.IntN(40), nil))
		}
		total := 0
		for _, c := range sc.Req.Body {
			total += len(unhx(c))
		}
		sc.Req.ContentLength = pick(rng, []int64{-1, int64(total), int64(total), 0, int64(total) + 3})
		for k := rng.IntN(3); k > 0; k-- {
			h := pick(rng, appHeaderPool)
			sc.Req.Headers = append(sc.Req.Headers, []string{hs(h[0]), hs(h[1])})
		}
		// arbitrary backend behaviour
		var script [][]string
		script = append(script, pick(rng, [][]string{{"readall", "7"}, {"readall", "1"}, {"readn", "5", "2"}, {"readall", "4096"}}))
		// always an explicit content-type: the recorder (like net/http) would sniff one otherwise
		script = append(script, []string{"sethdr", hs("Content-Type"), hs(pick(rng, []string{"application/grpc+raw", "application/json", "text/html", "application/connect+hexa", "x/y"}))})
		for k := rng.IntN(4); k > 0; k-- {
			h := pick(rng, [][2]string{{"Content-Type", "application/grpc+raw"}, {"Content-Type", "text/html"}, {"Grpc-Status", "7"},
				{"Grpc-Message", "no%20way"}, {"X-Resp", "a"}, {"X-Resp", "b"}, {"Trailer", "X-T, Grpc-Status"}, {"Content-Encoding", "gzip"},
				{"Content-Length", "5"}, {"Connect-Content-Encoding", "Z"}, {"Trailer-X-Foo", "v"}, {"Accept-Encoding", "br"}})
			script = append(script, []string{pick(rng, []string{"sethdr", "addhdr"}), hs(h[0]), hs(h[1])})
		}
		if rng.IntN(5) != 0 {
			script = append(script, []string{"status", fmt.Sprint(pick(rng, []int{200, 200, 200, 201, 204, 400, 404, 500, 503}))})
		}
		script = append(script, writeOps(rng, randBytes(rng, rng.IntN(30), nil))...)
		for k := rng.IntN(3); k > 0; k-- {
			h := pick(rng, [][2]string{{"X-T", "late"}, {"Grpc-Status", "0"}, {http.TrailerPrefix + "X-U", "u1"}, {http.TrailerPrefix + "Grpc-Status", "3"}})
			script = append(script, []string{"addhdr", hs(h[0]), hs(h[1])})
		}
		sc.Script = script
		raw, _ := json.Marshal(sc)
		e.Emit("e2e " + hex.EncodeToString(raw))
	}
}

func contains(xs []string, x string) bool {
	for _, y := range xs {
		if x == y {
			return true
		}
	}
	return false
}

// streamGetPost: the same message sent as a Connect GET and as a Connect POST.
func streamGetPost(e *Emitter, rng *rand.Rand, tier string) {
	n := 500
	if tier == "thorough" {
		n = 15000
	}
	for i := 0; i < n; i++ {
		base := &Scenario{}
		base.Cfg.Protocols = subset(rng, []string{"connect", "grpc", "grpcweb"}, true)
		base.Cfg.Codecs = subset(rng, []string{"raw", "hexa", "rev"}, true)
		base.Cfg.Compress = subset(rng, []string{"Z", "Y"}, false)
		base.Cfg.MaxMsg = 1000
		base.Cfg.MaxGetURL = pick(rng, []uint32{60, 80, 100, 120, 200})
		m := methods[1] // Get
		if rng.IntN(10) == 0 {
			m = methods[0] // Unary: GET must be refused
		}
		codec := pick(rng, []string{"raw", "hexa", "rev"})
		comp := pick(rng, []string{"", "", "Z", "Y", "identity"})
		value := randBytes(rng, rng.IntN(14), nil)
		if rng.IntN(4) == 0 {
			value = bytesRepeat('a', 5+rng.IntN(30))
		}
		mk := func(proto string) *Scenario {
			raw, _ := json.Marshal(base)
			var sc Scenario
			_ = json.Unmarshal(raw, &sc)
			fixed := rand.New(rand.NewPCG(uint64(i), 7)) // same auxiliary choices for both
			buildRequestFixed(fixed, &sc, m, clientPlan{proto: proto, codec: codec, comp: comp}, value)
			sc.Script = [][]string{{"readall", "64"}, {"sethdr", hs("Content-Type"), hs("application/x")}, {"status", "200"}}
			return &sc
		}
		a, _ := json.Marshal(mk("connect-get"))
		b, _ := json.Marshal(mk("connect-unary"))
		e.Emit("e2e_getpost " + hex.EncodeToString(a) + " " + hex.EncodeToString(b))
	}
}

// buildRequestFixed builds a plain, valid Connect unary request (GET or POST) carrying value.
func buildRequestFixed(rng *rand.Rand, sc *Scenario, m methodInfo, cp clientPlan, value []byte) {
	sc.Req.Path = hs("/verif.v1.Svc/" + m.name)
	sc.Req.ProtoMajor = 2
	sc.Req.BodyEnd = "eof"
	sc.Req.ContentLength = -1
	sc.ClientProto = "connect-unary"
	add := func(k, v string) { sc.Req.Headers = append(sc.Req.Headers, []string{hs(k), hs(v)}) }
	payload := encodeValue(cp.codec, value)
	if cp.comp != "" && cp.comp != "identity" {
		payload = compressValue(cp.comp, payload)
	}
	if cp.proto == "connect-get" {
		sc.Req.Method = hs("GET")
		q := url.Values{}
		q.Set("connect", "v1")
		q.Set("encoding", cp.codec)
		if cp.comp != "" {
			q.Set("compression", cp.comp)
		}
		if cp.codec != "hexa" || (cp.comp != "" && cp.comp != "identity") || rng.IntN(2) == 0 {
			q.Set("base64", "1")
			if rng.IntN(2) == 0 {
				q.Set("message", base64.URLEncoding.EncodeToString(payload))
			} else {
				q.Set("message", base64.RawURLEncoding.EncodeToString(payload))
			}
		} else {
			q.Set("message", string(payload))
		}
		if rng.IntN(4) == 0 {
			// a GET marked as Connect by the protocol-version header only (classifyRequest accepts it)
			q.Del("connect")
			add("Connect-Protocol-Version", "1")
		}
		sc.Req.Query = hs(q.Encode())
		return
	}
	sc.Req.Method = hs("POST")
	add("Content-Type", "application/"+cp.codec)
	add("Connect-Protocol-Version", "1")
	if cp.comp != "" {
		add("Content-Encoding", cp.comp)
	}
	if len(payload) > 0 {
		sc.Req.Body = []string{hx(payload)}
	}
}

// streamHistory: few configurations, many requests each (valid and hostile, cut mid-message,
// over limit, corrupt compressed data...), and after every few of them a probe that is run on the
// used Transcoder and on a fresh one.
func streamHistory(e *Emitter, rng *rand.Rand, tier string) {
	n := 900
	if tier == "thorough" {
		n = 25000
	}
	// a handful of fixed configurations so that the cached transcoders accumulate history
	type cfgT struct {
		protocols, codecs, compress []string
		maxMsg                      uint32
	}
	cfgs := []cfgT{
		{[]string{"grpc"}, []string{"hexa"}, []string{"Z"}, 16},
		{[]string{"connect"}, []string{"raw", "hexa"}, nil, 40},
		{[]string{"grpcweb", "connect"}, []string{"rev"}, []string{"Y", "Z"}, 1000},
		{[]string{"connect", "grpc", "grpcweb"}, []string{"hexa", "raw", "rev"}, []string{"Z"}, 8},
	}
	genHostileDie = 3
	defer func() { genHostileDie = 5 }()
	for i := 0; i < n; i++ {
		c := cfgs[rng.IntN(len(cfgs))]
		var sc *Scenario
		if rng.IntN(12) == 0 {
			// directed: a client without envelopes and without Content-Length whose body is too long or cut,
			// in front of a target with envelopes (the body is buffered to be measured, the buffer goes back
			// to the pool on the error path)
			c = cfgs[0]
			for try := 0; try < 2000; try++ {
				scratch := &Emitter{kinds: map[string]int{}, classes: map[string]int{}, nontriv: map[string]struct{}{}}
				cand := genScenarioWith(scratch, rng, func(s *Scenario) {
					s.Cfg.Protocols, s.Cfg.Codecs, s.Cfg.Compress, s.Cfg.MaxMsg = c.protocols, c.codecs, c.compress, c.maxMsg
					s.Cfg.MaxGetURL, s.Cfg.Unknown = 200, false
				})
				size := 0
				for _, ch := range cand.Req.Body {
					size += len(unhx(ch))
				}
				if cand.ClientProto == "connect-unary" && cand.Req.Method == hs("POST") && cand.Req.ContentLength == -1 &&
					(size > int(c.maxMsg) || cand.Req.BodyEnd == "unexpected") {
					sc = cand
					e.Class("directed:unenveloped-undeclared-body-too-long-or-cut")
					break
				}
			}
		}
		if sc == nil {
			sc = genScenarioWith(e, rng, func(s *Scenario) {
				s.Cfg.Protocols, s.Cfg.Codecs, s.Cfg.Compress, s.Cfg.MaxMsg = c.protocols, c.codecs, c.compress, c.maxMsg
				s.Cfg.MaxGetURL, s.Cfg.Unknown = 200, false
			})
		}
		raw, _ := json.Marshal(sc)
		// every request is both a probe (used versus fresh transcoder) and history for the next ones
		e.Emit("e2e_hist " + hex.EncodeToString(raw))
	}
}
