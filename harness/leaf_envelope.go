package main

import (
	"fmt"
	"math/rand/v2"
	"strconv"

	"connectrpc.com/vanguard"
)

var envelopeHandlers = []string{"grpc-client", "grpc-server", "grpcweb-client", "grpcweb-server", "connect-client", "connect-server"}

func init() {
	streams["envelope"] = streamEnvelope
	executors["env_dec"] = func(a []string) string {
		b := unhx(a[1])
		if len(b) != 5 {
			return "bad-arg"
		}
		env, err := vanguard.VerifDecodeEnvelope(a[0], [5]byte(b))
		if err != nil {
			return "err"
		}
		return fmt.Sprintf("ok %t %t %d", env.Trailer, env.Compressed, env.Length)
	}
	executors["env_enc"] = func(a []string) string {
		n, err := strconv.ParseUint(a[3], 10, 32)
		if err != nil {
			return "bad-arg"
		}
		out := vanguard.VerifEncodeEnvelope(a[0], vanguard.VerifEnvelope{Trailer: a[1] == "true", Compressed: a[2] == "true", Length: uint32(n)})
		return hx(out[:])
	}
}

func streamEnvelope(e *Emitter, rng *rand.Rand, tier string) {
	lengths := []uint32{0, 1, 5, 255, 256, 65535, 65536, 1 << 24, 1<<32 - 1}
	for _, h := range envelopeHandlers {
		for f := 0; f < 256; f++ { // every flag byte
			l := lengths[f%len(lengths)]
			b := []byte{byte(f), byte(l >> 24), byte(l >> 16), byte(l >> 8), byte(l)}
			e.Emit(fmt.Sprintf("env_dec %s %s", h, hx(b)))
		}
		for _, t := range []bool{false, true} {
			for _, c := range []bool{false, true} {
				for _, l := range lengths {
					e.Emit(fmt.Sprintf("env_enc %s %t %t %d", h, t, c, l))
				}
				for i := 0; i < 5; i++ {
					e.Emit(fmt.Sprintf("env_enc %s %t %t %d", h, t, c, rng.Uint32()))
				}
			}
		}
	}
	e.Class("exhaustive:256 flag bytes x 6 handlers")
}
