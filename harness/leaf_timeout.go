package main

import (
	"fmt"
	"math"
	"math/rand/v2"
	"net/http"
	"strconv"
	"strings"
	"time"

	"connectrpc.com/vanguard"
)

func init() {
	streams["timeout"] = streamTimeout
	executors["parse_int64"] = func(a []string) string {
		n, err := strconv.ParseInt(unhs(a[0]), 10, 64)
		if err != nil {
			return "err"
		}
		return fmt.Sprintf("ok %d", n)
	}
	executors["format_int"] = func(a []string) string {
		n, err := strconv.ParseInt(a[0], 10, 64)
		if err != nil {
			return "bad-arg"
		}
		return hs(strconv.FormatInt(n, 10))
	}
	executors["grpc_dec"] = func(a []string) string {
		r := vanguard.VerifGRPCDecodeTimeout(unhs(a[0]))
		switch {
		case r.NoTimeout:
			return "notimeout"
		case r.Err != nil:
			return "err"
		}
		return fmt.Sprintf("ok %d", int64(r.Timeout))
	}
	executors["grpc_extract"] = func(a []string) string {
		h := http.Header{}
		if v := unhs(a[0]); v != "" {
			h.Set("Grpc-Timeout", v)
		}
		return extracted(vanguard.VerifGRPCExtractTimeout(h))
	}
	executors["grpc_enc"] = func(a []string) string {
		n, err := strconv.ParseInt(a[0], 10, 64)
		if err != nil {
			return "bad-arg"
		}
		return hs(vanguard.VerifGRPCEncodeTimeout(time.Duration(n)))
	}
	executors["connect_extract"] = func(a []string) string {
		h := http.Header{}
		if v := unhs(a[0]); v != "" {
			h.Set("Connect-Timeout-Ms", v)
		}
		return extracted(vanguard.VerifConnectExtractTimeout(h))
	}
	executors["connect_enc"] = func(a []string) string {
		n, err := strconv.ParseInt(a[0], 10, 64)
		if err != nil {
			return "bad-arg"
		}
		return hs(vanguard.VerifConnectEncodeTimeout(time.Duration(n)))
	}
}

func extracted(r vanguard.VerifTimeoutResult) string {
	switch {
	case r.Err != nil:
		return "reject"
	case !r.HasTimeout:
		return "none"
	}
	return fmt.Sprintf("some %d", int64(r.Timeout))
}

func streamTimeout(e *Emitter, rng *rand.Rand, tier string) {
	n := 2000
	if tier == "thorough" {
		n = 50000
	}
	units := []byte("numSMH")
	// exhaustive: digit-count boundaries x all six units (and the neighbours of every boundary)
	var bounds []int64
	for p, v := 0, int64(1); p <= 9; p, v = p+1, v*10 {
		bounds = append(bounds, v-1, v, v+1)
	}
	bounds = append(bounds, 0, 7, 8, 9, 10, 99999998, 99999999, 100000000)
	for _, u := range units {
		for _, b := range bounds {
			if b < 0 {
				continue
			}
			s := strconv.FormatInt(b, 10) + string(u)
			e.Emit("grpc_dec " + hs(s))
			e.Emit("grpc_extract " + hs(s))
			e.Class("grpc:boundary")
		}
	}
	// every unit byte
	for c := 0; c < 256; c++ {
		e.Emit("grpc_dec " + hx([]byte{'5', byte(c)}))
	}
	// encode: unit-switch boundaries, int64 extremes
	var encB []int64
	for _, size := range []int64{1, 1e3, 1e6, 1e9, 60e9, 3600e9} {
		for _, m := range []int64{1, 99999999, 100000000, 100000001} {
			v := size * m
			if v/size != m {
				continue
			}
			encB = append(encB, v-1, v, v+1)
		}
	}
	encB = append(encB, 0, -1, 1, math.MaxInt64, math.MaxInt64-1, math.MinInt64, 6e18-1, 6e18, 6e18+1)
	for _, d := range encB {
		e.Emit(fmt.Sprintf("grpc_enc %d", d))
		e.Emit(fmt.Sprintf("connect_enc %d", d))
		e.Emit(fmt.Sprintf("format_int %d", d))
		e.Class("enc:boundary")
	}
	// connect: digit-count boundaries 1..20 digits, overflow boundary of ms -> ns
	cb := []string{"0", "1", "9", "10", "9999999999", "10000000000", "9223372036854", "9223372036855",
		"9223372036854775", "9223372036854775807", "9223372036854775808", "18446744073709551616",
		"-1", "-0", "+5", "", " 5", "5 ", "1.5", "1e3", "0x10", "1_000", "abc", "٣"}
	for _, s := range cb {
		e.Emit("connect_extract " + hs(s))
		e.Emit("parse_int64 " + hs(s))
		e.Class("connect:boundary")
	}
	malformed := []string{"", "S", "1", "1s", "1 S", " 1S", "1S ", "1.5S", "-1S", "+1S", "-0S", "1e3S", "0x1S", "1_0S",
		"100000000S", "000000001S", "00000001S", "99999999999999999999S", "9H", "8H", "99999999H", "1H2", "١S", "1h", "1N"}
	for _, s := range malformed {
		e.Emit("grpc_dec " + hs(s))
		e.Emit("grpc_extract " + hs(s))
		e.Emit("parse_int64 " + hs(strings.TrimRight(s, "numSMH")))
		e.Class("grpc:malformed-or-grey")
	}
	digitish := []byte("0123456789012345678901234567890+-. eE_xX")
	for i := 0; i < n; i++ {
		switch rng.IntN(5) {
		case 0: // valid grpc value
			digits := 1 + rng.IntN(8)
			s := string(randBytes(rng, digits, []byte("0123456789"))) + string(units[rng.IntN(6)])
			e.Emit("grpc_dec " + hs(s))
			e.Emit("grpc_extract " + hs(s))
			e.Class("grpc:valid")
		case 1: // mutated grpc value
			s := string(randBytes(rng, rng.IntN(12), digitish)) + string(randBytes(rng, rng.IntN(2), []byte("numSMHsh5 ")))
			e.Emit("grpc_dec " + hs(s))
			e.Emit("grpc_extract " + hs(s))
			e.Class("grpc:mutated")
		case 2: // durations to encode, log-uniform
			d := int64(rng.Uint64() >> uint(1+rng.IntN(63)))
			if rng.IntN(20) == 0 {
				d = -d
			}
			e.Emit(fmt.Sprintf("grpc_enc %d", d))
			e.Emit(fmt.Sprintf("connect_enc %d", d))
			e.Emit(fmt.Sprintf("format_int %d", d))
			e.Class("enc:random")
		case 3: // valid connect value
			s := string(randBytes(rng, 1+rng.IntN(20), []byte("0123456789")))
			e.Emit("connect_extract " + hs(s))
			e.Emit("parse_int64 " + hs(s))
			e.Class("connect:valid")
		default:
			s := string(randBytes(rng, rng.IntN(22), digitish))
			e.Emit("connect_extract " + hs(s))
			e.Emit("parse_int64 " + hs(s))
			e.Class("connect:mutated")
		}
	}
}
