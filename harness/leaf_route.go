package main

import (
	"fmt"
	"math/rand/v2"
	"sort"
	"strings"

	"connectrpc.com/vanguard"
)

func init() {
	streams["escape"] = streamEscape
	streams["route"] = streamRoute
	executors["path_escape"] = func(a []string) string {
		return hs(vanguard.VerifPathEscape(unhs(a[1]), a[0] == "multi"))
	}
	executors["path_unescape"] = func(a []string) string {
		return okHex(vanguard.VerifPathUnescape(unhs(a[1]), a[0] == "multi"))
	}
	executors["tmpl_parse"] = func(a []string) string {
		path, verb, vars, err := vanguard.VerifParsePathTemplate(unhs(a[0]))
		if err != nil {
			return "err"
		}
		vs := make([]string, len(vars))
		for i, v := range vars {
			vs[i] = fmt.Sprintf("%s:%d:%d", hs(v.FieldPath), v.Start, v.End)
		}
		vstr := "-"
		if len(vs) > 0 {
			vstr = strings.Join(vs, ",")
		}
		return fmt.Sprintf("ok %s %s %s", hs(strings.Join(path, "/")), hs(verb), vstr)
	}
	// route <rules> <path> <method>: rules = lines "METHOD SP template"
	executors["route"] = func(a []string) string {
		var r vanguard.VerifRouter
		rules := strings.Split(unhs(a[0]), "\n")
		for i, rule := range rules {
			method, tmpl, _ := strings.Cut(rule, " ")
			if _, err := r.Add(method, tmpl); err != nil {
				return fmt.Sprintf("reject %d", i)
			}
		}
		found, vars, allow := r.Match(unhs(a[1]), unhs(a[2]))
		if found >= 0 {
			out := fmt.Sprintf("found %d", found)
			for _, v := range vars {
				out += " " + hs(v)
			}
			return out
		}
		if len(allow) > 0 {
			sort.Strings(allow)
			return "allow " + hs(strings.Join(allow, ","))
		}
		return "none"
	}
}

var escAlphabet = []byte("abAZ09-_.~%%%/ :?#*{}=2fF5\x00\x7f\x80\xc3\xa9")

func streamEscape(e *Emitter, rng *rand.Rand, tier string) {
	n := 3000
	if tier == "thorough" {
		n = 60000
	}
	for c := 0; c < 256; c++ {
		for _, mode := range []string{"single", "multi"} {
			e.Emit(fmt.Sprintf("path_escape %s %s", mode, hx([]byte{byte(c)})))
			e.Emit(fmt.Sprintf("path_unescape %s %s", mode, hx([]byte{byte(c)})))
			e.Emit(fmt.Sprintf("path_unescape %s %s", mode, hx([]byte{'%', byte(c), 'f'})))
			e.Emit(fmt.Sprintf("path_unescape %s %s", mode, hx([]byte{'%', '2', byte(c)})))
			e.Emit(fmt.Sprintf("path_escape %s %s", mode, hx([]byte{'%', '2', byte(c)})))
		}
	}
	for i := 0; i < n; i++ {
		var s []byte
		switch rng.IntN(3) {
		case 0:
			s = randBytes(rng, rng.IntN(16), nil)
			e.Class("escape:random-bytes")
		case 1:
			s = randBytes(rng, rng.IntN(16), escAlphabet)
			e.Class("escape:reserved-heavy")
		default:
			s = []byte(string(randRunes(rng, rng.IntN(8))))
			e.Class("escape:utf8")
		}
		mode := []string{"single", "multi"}[rng.IntN(2)]
		e.Emit(fmt.Sprintf("path_escape %s %s", mode, hx(s)))
		e.Emit(fmt.Sprintf("path_unescape %s %s", mode, hx(s)))
	}
}

var litPool = []string{"v1", "a", "b", "shelves", "books", "x.y", "a%20b", "%41", "a-b~c", "%2F", "c%2fd", "%e4%b8%96", "a%252Fb", "%252f", "%25"}
var verbPool = []string{"", "", "", "get", "cancel", "x%2Fy", "a.b", "v%252Fw"}
var namePool = []string{"name", "id", "a.b", "parent", "x_1", "book.shelf"}

func genSegments(rng *rand.Rand, depth int, allowDstar bool, names *int) []string {
	n := 1 + rng.IntN(3)
	var segs []string
	for i := 0; i < n; i++ {
		last := i == n-1
		switch k := rng.IntN(10); {
		case k < 4:
			segs = append(segs, litPool[rng.IntN(len(litPool))])
		case k < 6:
			segs = append(segs, "*")
		case k == 6 && last && allowDstar:
			segs = append(segs, "**")
		case depth < 2:
			name := namePool[(*names)%len(namePool)]
			if rng.IntN(6) == 0 {
				name = namePool[rng.IntN(len(namePool))] // may produce duplicates
			}
			*names++
			switch rng.IntN(3) {
			case 0:
				segs = append(segs, "{"+name+"}")
			default:
				inner := genSegments(rng, depth+1, allowDstar && last, names)
				segs = append(segs, "{"+name+"="+strings.Join(inner, "/")+"}")
			}
		default:
			segs = append(segs, litPool[rng.IntN(len(litPool))])
		}
	}
	return segs
}

func genTemplate(rng *rand.Rand) string {
	names := rng.IntN(len(namePool))
	t := "/" + strings.Join(genSegments(rng, 0, true, &names), "/")
	if v := verbPool[rng.IntN(len(verbPool))]; v != "" {
		t += ":" + v
	}
	if rng.IntN(8) == 0 { // mutate into a (probably) invalid template
		b := []byte(t)
		pos := rng.IntN(len(b) + 1)
		junk := []byte("{}=*/:%. \x80é")
		switch rng.IntN(3) {
		case 0:
			b = append(b[:pos:pos], append([]byte{junk[rng.IntN(len(junk))]}, b[pos:]...)...)
		case 1:
			if pos < len(b) {
				b = append(b[:pos:pos], b[pos+1:]...)
			}
		default:
			if pos < len(b) {
				b[pos] = junk[rng.IntN(len(junk))]
			}
		}
		t = string(b)
	}
	return t
}

var segPool = []string{"", "v1", "a", "b", "shelves", "books", "x.y", "a%20b", "a b", "%41", "A", "100%25", "a%2Fb", "a%2fb",
	"a%3Ab", "a:b", "%zz", "%", "*", "**", "世", "%e4%b8%96", "c%2fd", "%2F", "a-b~c", "x:get", "q?x", "a%252Fb", "%252f", "%25", "%2525"}

// instantiate a template into a request path that is meant to match it
func pathFor(rng *rand.Rand, tmpl string) string {
	path, verb, _, err := vanguard.VerifParsePathTemplate(tmpl)
	if err != nil {
		return randomPath(rng)
	}
	var segs []string
	for _, s := range path {
		switch s {
		case "*":
			segs = append(segs, segPool[rng.IntN(len(segPool))])
		case "**":
			for k := rng.IntN(4); k >= 0; k-- {
				segs = append(segs, segPool[rng.IntN(len(segPool))])
			}
		default:
			segs = append(segs, s)
		}
	}
	p := "/" + strings.Join(segs, "/")
	if verb != "" {
		p += ":" + verb
	}
	return p
}

func randomPath(rng *rand.Rand) string {
	n := rng.IntN(5)
	segs := make([]string, n)
	for i := range segs {
		segs[i] = segPool[rng.IntN(len(segPool))]
	}
	p := "/" + strings.Join(segs, "/")
	switch rng.IntN(8) {
	case 0:
		p += "/"
	case 1:
		p += ":" + verbPool[rng.IntN(len(verbPool))]
	case 2:
		p = strings.TrimPrefix(p, "/")
	}
	return p
}

var httpMethods = []string{"GET", "POST", "PUT", "DELETE", "PATCH", "*", "CUSTOM", "GET", "GET"}

func streamRoute(e *Emitter, rng *rand.Rand, tier string) {
	tables := 150
	if tier == "thorough" {
		tables = 3000
	}
	for i := 0; i < 400; i++ {
		e.Emit("tmpl_parse " + hs(genTemplate(rng)))
	}
	for t := 0; t < tables; t++ {
		nrules := 1 + rng.IntN(6)
		var rules, tmpls []string
		hostile := rng.IntN(10) == 0 // 10% of the tables may contain invalid or duplicate rules
		seen := map[string]bool{}
		for i := 0; i < nrules; i++ {
			tmpl := genTemplate(rng)
			if len(tmpls) > 0 && rng.IntN(3) == 0 {
				tmpl = tmpls[rng.IntN(len(tmpls))] // same template, another method
			}
			method := httpMethods[rng.IntN(len(httpMethods))]
			if !hostile {
				if _, _, _, err := vanguard.VerifParsePathTemplate(tmpl); err != nil || seen[method+" "+tmpl] {
					i--
					continue
				}
			}
			seen[method+" "+tmpl] = true
			tmpls = append(tmpls, tmpl)
			rules = append(rules, method+" "+tmpl)
			e.Emit("tmpl_parse " + hs(tmpl))
		}
		table := hs(strings.Join(rules, "\n"))
		shuffled := append([]string(nil), rules...)
		rng.Shuffle(len(shuffled), func(i, j int) { shuffled[i], shuffled[j] = shuffled[j], shuffled[i] })
		tableShuffled := hs(strings.Join(shuffled, "\n"))
		for q := 0; q < 12; q++ {
			var p string
			if rng.IntN(4) != 0 {
				p = pathFor(rng, tmpls[rng.IntN(len(tmpls))])
				e.Class("route:path-from-template")
			} else {
				p = randomPath(rng)
				e.Class("route:random-path")
			}
			m := httpMethods[rng.IntN(len(httpMethods))]
			e.Emit(fmt.Sprintf("route %s %s %s", table, hs(p), hs(m)))
			if q%3 == 0 {
				e.Emit(fmt.Sprintf("route %s %s %s", tableShuffled, hs(p), hs(m)))
			}
		}
	}
}
