package main

import (
	"fmt"
	"math/rand/v2"
	"strconv"

	"connectrpc.com/vanguard"
)

func init() {
	streams["codes"] = streamCodes
	streams["percent"] = streamPercent
	executors["status_from_rpc"] = func(a []string) string {
		n, err := strconv.ParseUint(a[0], 10, 32)
		if err != nil {
			return "bad-arg"
		}
		return fmt.Sprint(vanguard.VerifHTTPStatusCodeFromRPC(uint32(n)))
	}
	executors["status_to_rpc"] = func(a []string) string {
		n, err := strconv.Atoi(a[0])
		if err != nil {
			return "bad-arg"
		}
		return fmt.Sprint(vanguard.VerifHTTPStatusCodeToRPC(n))
	}
	executors["pct_enc"] = func(a []string) string { return hs(vanguard.VerifGRPCPercentEncode(unhs(a[0]))) }
	executors["pct_dec"] = func(a []string) string { return okHex(vanguard.VerifGRPCPercentDecode(unhs(a[0]))) }
}

func okHex(s string, err error) string {
	if err != nil {
		return "err"
	}
	return "ok " + hs(s)
}

func streamCodes(e *Emitter, rng *rand.Rand, tier string) {
	// exhaustive over the defined range and well beyond, plus uint32 boundary values
	for c := uint32(0); c <= 300; c++ {
		e.Emit(fmt.Sprintf("status_from_rpc %d", c))
	}
	for _, c := range []uint32{1 << 16, 1<<31 - 1, 1 << 31, 1<<32 - 1} {
		e.Emit(fmt.Sprintf("status_from_rpc %d", c))
	}
	for i := 0; i < 50; i++ {
		e.Emit(fmt.Sprintf("status_from_rpc %d", rng.Uint32()))
	}
	for s := -5; s <= 1100; s++ {
		e.Emit(fmt.Sprintf("status_to_rpc %d", s))
	}
	e.Class("exhaustive:codes0..300,status-5..1100")
}

func randBytes(rng *rand.Rand, n int, alphabet []byte) []byte {
	b := make([]byte, n)
	for i := range b {
		if alphabet != nil {
			b[i] = alphabet[rng.IntN(len(alphabet))]
		} else {
			b[i] = byte(rng.IntN(256))
		}
	}
	return b
}

func randRunes(rng *rand.Rand, n int) []rune {
	pools := [][2]rune{{0x20, 0x7e}, {0xa0, 0x24f}, {0x4e00, 0x4e80}, {0x1f600, 0x1f640}, {0, 0x1f}}
	out := make([]rune, n)
	for i := range out {
		p := pools[rng.IntN(len(pools))]
		out[i] = p[0] + rune(rng.IntN(int(p[1]-p[0]+1)))
	}
	return out
}

func streamPercent(e *Emitter, rng *rand.Rand, tier string) {
	n := 3000
	if tier == "thorough" {
		n = 60000
	}
	// every single byte, and "%" followed by every byte in either hex position
	for c := 0; c < 256; c++ {
		s := string([]byte{byte(c)})
		e.Emit("pct_enc " + hs(s))
		e.Emit("pct_dec " + hs(s))
		e.Emit("pct_dec " + hs("%"+s+"A"))
		e.Emit("pct_dec " + hs("%a"+s))
	}
	pctAlpha := []byte("%%%0123456789abcdefABCDEFgG xyz\x00\x7f\x80\xff")
	for i := 0; i < n; i++ {
		var s []byte
		switch rng.IntN(3) {
		case 0:
			s = randBytes(rng, rng.IntN(24), nil)
			e.Class("percent:random-bytes")
		case 1:
			s = randBytes(rng, rng.IntN(24), pctAlpha)
			e.Class("percent:percent-heavy")
		default:
			s = []byte(string(randRunes(rng, rng.IntN(12))))
			e.Class("percent:utf8")
		}
		e.Emit("pct_enc " + hx(s))
		e.Emit("pct_dec " + hx(s))
	}
}
