package main

// Concurrency stream (C14): N scenarios of one configuration are served at the same time by one
// Transcoder, each by its own goroutine (and, for duplex scenarios, with the request side and the
// response side of the handler on different goroutines).  Every RPC's observation must be the one
// the model computes for it alone, and the pool hook must see no buffer or compressor shared.

import (
	"runtime"
	"encoding/hex"
	"encoding/json"
	"math/rand/v2"
	"sort"
	"strings"
	"sync"

	"connectrpc.com/vanguard"
)

func init() {
	streams["conc"] = streamConc
	executors["e2e_conc"] = func(a []string) string {
		var scs []*Scenario
		for _, h := range a {
			raw, err := hex.DecodeString(h)
			if err != nil {
				return "bad-op"
			}
			sc := &Scenario{}
			if err := json.Unmarshal(raw, sc); err != nil {
				return "bad-op"
			}
			scs = append(scs, sc)
		}
		if len(scs) == 0 {
			return "bad-op"
		}
		transcoderMu.Lock()
		defer transcoderMu.Unlock()
		ts := make([]*vanguard.Transcoder, len(scs))
		for i, sc := range scs {
			t, err := buildTranscoder(sc, false)
			if err != nil {
				return "config-rejected"
			}
			ts[i] = t
		}
		out := make([]string, len(scs))
		// every other group runs on a single processor: all its goroutines then share one per-P cache of
		// every sync.Pool, so an object that was put back twice is handed to two of them
		concGroups++
		if concGroups%2 == 0 {
			defer runtime.GOMAXPROCS(runtime.GOMAXPROCS(1))
		}
		vanguard.VerifPoolTrace(true)
		var wg sync.WaitGroup
		start := make(chan struct{})
		for i := range scs {
			wg.Add(1)
			go func() {
				defer wg.Done()
				<-start
				out[i] = serveScenario(scs[i], ts[i])
			}()
		}
		close(start)
		wg.Wait()
		trace, viol := vanguard.VerifPoolTrace(false)
		lastPoolTrace = trace
		viol = append(viol, takeFakeViolations()...)
		if concGroups%2 == 0 {
			// (single-processor group: everything that was put back is in this processor's pool cache)
			seenT := map[*vanguard.Transcoder]bool{}
			for _, t := range ts {
				if !seenT[t] {
					seenT[t] = true
					viol = append(viol, t.VerifPoolDuplicates(48)...)
				}
			}
		}
		sort.Strings(viol)
		pool := "ok"
		if len(viol) > 0 {
			pool = strings.Join(viol, ",")
		}
		return strings.Join(out, " ## ") + " ## pool=" + pool
	}
	// pool_trace <events>: the ownership automaton run over a recorded trace
	executors["pool_trace"] = func(a []string) string {
		held, pooled, seen := map[string]bool{}, map[string]int{}, map[string]bool{}
		for _, ev := range strings.Split(a[0], ",") {
			if len(ev) < 2 {
				return "bad-op"
			}
			id := ev[1:]
			if !seen[id] && ev[0] == 'r' {
				pooled[id] = 1 // in the pool since before the recording
			}
			seen[id] = true
			switch ev[0] {
			case 'g': // a new buffer
				if held[id] || pooled[id] > 0 {
					return "shared"
				}
				held[id] = true
			case 'r': // a recycled buffer
				if held[id] || pooled[id] == 0 {
					return "shared"
				}
				pooled[id]--
				held[id] = true
			case 'p':
				if !held[id] {
					return "shared"
				}
				delete(held, id)
				pooled[id]++
			case 'd':
				if !held[id] {
					return "shared"
				}
				delete(held, id)
			default:
				return "bad-op"
			}
		}
		return "exclusive"
	}
}

var concGroups int

func streamConc(e *Emitter, rng *rand.Rand, tier string) {
	n := 250
	if tier == "thorough" {
		n = 6000
	}
	type cfgT struct {
		protocols, codecs, compress []string
		maxMsg                      uint32
	}
	cfgs := []cfgT{
		{[]string{"grpc"}, []string{"hexa"}, []string{"Z"}, 400},
		{[]string{"connect"}, []string{"raw", "hexa"}, []string{"Y"}, 40},
		{[]string{"grpcweb", "connect"}, []string{"rev"}, []string{"Y", "Z"}, 1000},
		{[]string{"connect", "grpc", "grpcweb"}, []string{"hexa", "raw", "rev"}, []string{"Z"}, 12},
	}
	genHostileDie = 4
	defer func() { genHostileDie = 5 }()
	for i := 0; i < n; i++ {
		c := cfgs[rng.IntN(len(cfgs))]
		k := 2 + rng.IntN(7)
		var parts []string
		for j := 0; j < k; j++ {
			sc := genScenarioWith(e, rng, func(s *Scenario) {
				s.Cfg.Protocols, s.Cfg.Codecs, s.Cfg.Compress, s.Cfg.MaxMsg = c.protocols, c.codecs, c.compress, c.maxMsg
				s.Cfg.MaxGetURL, s.Cfg.Unknown = 200, false
			})
			if sc.Expect != nil && sc.Expect.SizesSafe && rng.IntN(4) != 0 {
				// neither side fails, so the outcome does not depend on how the two sides of the
				// handler interleave
				sc.Duplex = true
				e.Class("conc:duplex")
			}
			raw, _ := json.Marshal(sc)
			parts = append(parts, hex.EncodeToString(raw))
		}
		e.Emit("e2e_conc " + strings.Join(parts, " "))
		if len(lastPoolTrace) > 0 {
			e.Emit("pool_trace " + strings.Join(lastPoolTrace, ","))
		}
	}
}
