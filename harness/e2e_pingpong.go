package main

// Ping-pong stream (C16): clean streaming scenarios between streaming-capable protocols, reshaped
// so that the handler alternates strictly: it reads exactly one request message, writes one
// response message, reads the next one, and so on; the client's body arrives one message per
// chunk.  The observation's progress logs (rp, wp) then tell, after every step, how much of the
// client's body the transcoder had to take and how much of the response was on the wire.

import (
	"encoding/binary"
	"encoding/hex"
	"encoding/json"
	"fmt"
	"math/rand/v2"
	"strings"
)

func fieldOfObs(obs, key string) (string, bool) {
	for _, t := range strings.Split(obs, " ") {
		if strings.HasPrefix(t, key+"=") {
			return t[len(key)+1:], true
		}
	}
	return "", false
}

func streamPingPong(e *Emitter, rng *rand.Rand, tier string) {
	n := 300
	if tier == "thorough" {
		n = 8000
	}
	genMaxMsgs, genMethods, genHostileDie, genMaxValue = 9, []string{"Bidi", "Bidi", "CStream", "SStream"}, 1000000, 40
	defer func() { genMaxMsgs, genMethods, genHostileDie, genMaxValue = 4, nil, 5, 0 }()
	quota := map[string]int{}
	for made, tries := 0, 0; made < n && tries < 400*n; tries++ {
		big := rng.IntN(8) != 0
		sc := genScenarioWith(e, rng, func(s *Scenario) {
			if big {
				s.Cfg.MaxMsg = 400 // room for several rounds of safe sizes
			}
		})
		if sc.Expect == nil || !sc.Expect.SizesSafe || sc.Expect.ErrCode != 0 {
			continue
		}
		switch sc.ClientProto {
		case "grpc", "grpcweb", "connect-stream":
		default:
			continue
		}
		var body []byte
		for _, c := range sc.Req.Body {
			body = append(body, unhx(c)...)
		}
		reqFrames, ok := splitFrames(body)
		if !ok || len(reqFrames) == 0 {
			continue
		}
		if len(reqFrames) < 2 && rng.IntN(6) != 0 {
			continue // mostly several rounds
		}
		if len(sc.Expect.RespValues) < len(reqFrames) && rng.IntN(5) != 0 {
			continue // mostly real ping-pong: a response for every request
		}
		// what the handler sees when it reads everything: the server-side frames
		probe := *sc
		probe.Script = [][]string{{"readall", "4096"}}
		probe.Expect = nil
		obs := runScenario(&probe, true)
		brHex, ok := fieldOfObs(obs, "br")
		if !ok {
			continue
		}
		srvFrames, ok := splitFrames(unhx(brHex))
		if !ok || len(srvFrames) != len(reqFrames) {
			continue // the backend is not addressed with an enveloped protocol
		}
		// which adapter serves the request side: none (forwarded), re-enveloping only, or full
		// transformation; keep the three about equally frequent
		kind := "transform"
		if brHex == hx(body) {
			kind = "same-bytes" // forwarded untouched, or re-enveloped between equal framings
			if ssProtoOf(obs) != sc.ClientProto {
				kind = "reenvelope"
			}
		}
		if quota[kind] > made/3+1 {
			continue
		}
		quota[kind]++
		e.Class("pingpong:" + kind)
		// the client's body: one message per chunk, sometimes in smaller pieces that still end at
		// the message boundary
		sc.Req.Body = nil
		var chunkMsg []int // message index of every chunk
		for i, f := range reqFrames {
			msg := envelope(f.flags, f.payload)
			pieces := []string{hx(msg)}
			if rng.IntN(3) == 0 {
				pieces = splitChunks(rng, msg)
			}
			for range pieces {
				chunkMsg = append(chunkMsg, i)
			}
			sc.Req.Body = append(sc.Req.Body, pieces...)
		}
		// strict alternation
		var head, writes [][]string
		for _, op := range sc.Script {
			switch op[0] {
			case "readn", "readfix", "readall", "close":
			case "write":
				writes = append(writes, op)
			default:
				if len(writes) == 0 {
					head = append(head, op)
				} else {
					writes = append(writes, op)
				}
			}
		}
		script := head
		k := 0
		var sofar []byte
		atBoundary := func() bool { // everything written so far is whole frames
			b := sofar
			for len(b) >= 5 {
				n := int(binary.BigEndian.Uint32(b[1:5]))
				if len(b) < 5+n {
					return false
				}
				b = b[5+n:]
			}
			return len(b) == 0
		}
		for _, op := range writes {
			if op[0] == "write" && k < len(srvFrames) && atBoundary() {
				size := 5 + len(srvFrames[k].payload)
				if rng.IntN(3) == 0 {
					// a reader with a fixed buffer, larger than what is left of the message
					script = append(script, []string{"readfix", fmt.Sprint(size), fmt.Sprint(pick(rng, []int{64, size + 1, size + 59, 6, 7}))})
				} else {
					script = append(script, []string{"readn", fmt.Sprint(size), fmt.Sprint(pick(rng, []int{size, 5, 1, 64}))})
				}
				k++
			}
			script = append(script, op)
			if op[0] == "write" {
				sofar = append(sofar, unhx(op[1])...)
				// a well-behaved streaming handler flushes what it wrote (this matters when the
				// request is forwarded untouched; the transcoder's own writer flushes by itself)
				script = append(script, []string{"flush"})
			}
		}
		for ; k < len(srvFrames); k++ {
			size := 5 + len(srvFrames[k].payload)
			script = append(script, []string{"readn", fmt.Sprint(size), fmt.Sprint(size)})
		}
		script = append(script, []string{"readall", "16"})
		sc.Script = script
		// the lock-step client sends message j only after it has all the responses the handler
		// completes before it asks for message j
		srvEnd := map[string]byte{"grpcweb": 0x80, "connect-stream": 2}[ssProtoOf(obs)]
		var written []byte
		var msgGate []int
		for _, op := range script {
			switch op[0] {
			case "write":
				written = append(written, unhx(op[1])...)
			case "readn", "readfix":
				count := 0
				for b := written; len(b) >= 5; {
					n := int(binary.BigEndian.Uint32(b[1:5]))
					if len(b) < 5+n {
						break
					}
					if srvEnd == 0 || b[0]&srvEnd == 0 {
						count++
					}
					b = b[5+n:]
				}
				msgGate = append(msgGate, count)
			}
		}
		// a response message may legitimately not reach the client (for example after an error):
		// the client cannot wait for more responses than it will ever get
		total := len(sc.Expect.RespValues)
		sc.Gates = nil
		for _, m := range chunkMsg {
			g := 0
			if m < len(msgGate) {
				g = min(msgGate[m], total)
			}
			sc.Gates = append(sc.Gates, g)
		}
		sc.Expect.ReadsAll = true
		raw, _ := json.Marshal(sc)
		e.Class(fmt.Sprintf("pingpong:rounds=%d", min(len(srvFrames), 6)))
		e.Emit("e2e " + hex.EncodeToString(raw))
		made++
	}
}

// ssProtoOf tells the backend's protocol from the content type in a probe observation.
func ssProtoOf(obs string) string {
	bh, _ := fieldOfObs(obs, "bh")
	for _, kv := range strings.Split(bh, ";") {
		k, v, _ := strings.Cut(kv, "=")
		if string(unhx(k)) == "Content-Type" {
			ct := string(unhx(v))
			switch {
			case strings.HasPrefix(ct, "application/grpc-web"):
				return "grpcweb"
			case strings.HasPrefix(ct, "application/grpc"):
				return "grpc"
			case strings.HasPrefix(ct, "application/connect+"):
				return "connect-stream"
			}
		}
	}
	return ""
}

func init() { streams["pingpong"] = streamPingPong }
