package main

// REST binding stream (C07): messages of cfg.v1.Req are converted to REST requests under random
// rules (httpEncodePathValues + body marshalling, the code that serves REST backends) and parsed
// back (route match, body, path variables, query parameters: the code that serves REST clients);
// and arbitrary REST requests (reserved characters, both spellings of field names, dotted paths,
// repeated values, ill-typed values, unknown names) are parsed.  Messages travel as leaf lists
// (field path = canonical scalar text), so the JSON codec stays outside the comparison.

import (
	"bytes"
	"encoding/binary"
	"encoding/hex"
	"encoding/json"
	"errors"
	"fmt"
	"io"
	"math/rand/v2"
	"net/http"
	"net/http/httptest"
	"net/url"
	"os"
	"sort"
	"strconv"
	"strings"

	"connectrpc.com/connect"
	"connectrpc.com/vanguard"
	"google.golang.org/protobuf/encoding/protojson"
	"google.golang.org/protobuf/proto"
	"google.golang.org/protobuf/reflect/protoreflect"
	"google.golang.org/protobuf/types/dynamicpb"
)

type restOp struct {
	Schema struct {
		Messages map[string][]cfgField `json:"messages"`
	} `json:"schema"`
	Rule   cfgBinding  `json:"rule"`
	Leaves [][2]string `json:"leaves,omitempty"` // [field path, hex text] of the message to convert
	// for rest_in: an arbitrary request
	Method string `json:"method,omitempty"`
	EPath  string `json:"epath,omitempty"` // hex, escaped path
	Query  string `json:"query,omitempty"` // hex, raw query
	// QParsed: the query as net/url parses it ([hex key, hex values...]); net/url is an input of the model
	QParsed [][]string `json:"qparsed,omitempty"`
	// for rest_out_cut: how the enveloped client's only message is cut ("env": envelope only,
	// "part": envelope and a strict prefix of the payload, "short": part of the envelope)
	Cut string `json:"cut,omitempty"`
}

const restMethodPath = "/cfg.v1.Lib/Get"

var restTranscoders = map[string]*vanguard.Transcoder{}

func restTranscoder(rule cfgBinding) (*vanguard.Transcoder, error) {
	key := fmt.Sprint(rule)
	if t, ok := restTranscoders[key]; ok {
		return t, nil
	}
	c := &cfgConfig{KnownCodecs: []string{"json", "proto"}, KnownCompressors: []string{"gzip"}}
	c.Services = []cfgSvcReg{{Svc: "cfg.v1.Lib", Opts: []cfgOpt{{Kind: "protocols", Nums: []int{4}}, {Kind: "codecs", Names: []string{"json"}}}}}
	c.Rules = []cfgRule{{Selector: "cfg.v1.Lib.Get", cfgBinding: rule}}
	t, err := buildFromConfig(c)
	if err != nil {
		return nil, err
	}
	restTranscoders[key] = t
	return t, nil
}

func reqDescriptor() protoreflect.MessageDescriptor {
	return cfgSchema["cfg.v1.Lib"].Methods().ByName("Get").Input()
}

// msgFromLeaves builds a cfg.v1.Req from [path, hex text] leaves.
func msgFromLeaves(leaves [][2]string) (*dynamicpb.Message, error) {
	m := dynamicpb.NewMessage(reqDescriptor())
	for _, l := range leaves {
		var cur protoreflect.Message = m
		parts := strings.Split(l[0], ".")
		for i, part := range parts {
			fd := cur.Descriptor().Fields().ByName(protoreflect.Name(part))
			if fd == nil {
				return nil, fmt.Errorf("no field %s", l[0])
			}
			if i < len(parts)-1 {
				cur = cur.Mutable(fd).Message()
				continue
			}
			text := string(unhx(l[1]))
			if fd.Message() != nil && fd.IsList() { // "inners": the text is the element's id
				el := cur.Mutable(fd).List().NewElement()
				el.Message().Set(el.Message().Descriptor().Fields().ByName("id"), protoreflect.ValueOfString(text))
				cur.Mutable(fd).List().Append(el)
				continue
			}
			var v protoreflect.Value
			switch fd.Kind() {
			case protoreflect.StringKind:
				v = protoreflect.ValueOfString(text)
			case protoreflect.Int32Kind:
				n, err := strconv.ParseInt(text, 10, 32)
				if err != nil {
					return nil, err
				}
				v = protoreflect.ValueOfInt32(int32(n))
			case protoreflect.Int64Kind:
				n, err := strconv.ParseInt(text, 10, 64)
				if err != nil {
					return nil, err
				}
				v = protoreflect.ValueOfInt64(n)
			case protoreflect.Uint32Kind:
				n, err := strconv.ParseUint(text, 10, 32)
				if err != nil {
					return nil, err
				}
				v = protoreflect.ValueOfUint32(uint32(n))
			case protoreflect.BoolKind:
				v = protoreflect.ValueOfBool(text == "true")
			case protoreflect.BytesKind:
				v = protoreflect.ValueOfBytes([]byte(text))
			default:
				return nil, fmt.Errorf("kind %v", fd.Kind())
			}
			if fd.IsList() {
				cur.Mutable(fd).List().Append(v)
			} else {
				cur.Set(fd, v)
			}
		}
	}
	return m, nil
}

// leavesOf renders the populated scalar leaves of m in field-number order.
func leavesOf(m protoreflect.Message, prefix string, out *[]string) {
	fields := m.Descriptor().Fields()
	for i := 0; i < fields.Len(); i++ {
		fd := fields.Get(i)
		if !m.Has(fd) {
			continue
		}
		path := prefix + string(fd.Name())
		scalar := func(v protoreflect.Value) string {
			switch fd.Kind() {
			case protoreflect.StringKind:
				return hs(v.String())
			case protoreflect.BytesKind:
				return hs(string(v.Bytes()))
			case protoreflect.BoolKind:
				return hs(strconv.FormatBool(v.Bool()))
			default:
				return hs(fmt.Sprint(v.Interface()))
			}
		}
		switch {
		case fd.IsList() && fd.Message() != nil:
			l := m.Get(fd).List()
			for j := 0; j < l.Len(); j++ {
				*out = append(*out, path+"="+hs(l.Get(j).Message().Get(fd.Message().Fields().ByName("id")).String()))
			}
		case fd.IsList():
			l := m.Get(fd).List()
			for j := 0; j < l.Len(); j++ {
				*out = append(*out, path+"="+scalar(l.Get(j)))
			}
		case fd.Message() != nil:
			leavesOf(m.Get(fd).Message(), path+".", out)
		default:
			*out = append(*out, path+"="+scalar(m.Get(fd)))
		}
	}
}

func renderLeaves(m proto.Message) string {
	var out []string
	leavesOf(m.ProtoReflect(), "", &out)
	if len(out) == 0 {
		return "-"
	}
	// canonical order: by field path, elements of one repeated field in their order
	sort.SliceStable(out, func(i, j int) bool { return strings.SplitN(out[i], "=", 2)[0] < strings.SplitN(out[j], "=", 2)[0] })
	return strings.Join(out, ",")
}

func restErrClass(err error) string {
	var cerr *connect.Error
	if errors.As(err, &cerr) {
		return strings.ReplaceAll(cerr.Code().String(), " ", "_")
	}
	if err.Error() == "verif: no route" {
		return "notfound"
	}
	return "other"
}

// bodyLeaves parses the JSON body the transcoder produced back into the body field and renders
// what it contains (so the JSON text itself is not compared).
func bodyLeaves(rule cfgBinding, body []byte) string {
	m := dynamicpb.NewMessage(reqDescriptor())
	if rule.Body == "*" {
		if err := protojson.Unmarshal(body, m); err != nil {
			return "UNPARSABLE"
		}
		return renderLeaves(m)
	}
	fd := m.Descriptor().Fields().ByName(protoreflect.Name(rule.Body))
	if fd == nil {
		return "NOFIELD"
	}
	// wrap the field's JSON value into an object of the whole message
	wrapped := []byte(`{"` + fd.JSONName() + `":` + string(body) + `}`)
	if err := protojson.Unmarshal(wrapped, m); err != nil {
		return "UNPARSABLE"
	}
	return renderLeaves(m)
}

func init() {
	executors["rest_rt"] = func(a []string) string {
		raw, err := hex.DecodeString(a[0])
		if err != nil {
			return "bad-op"
		}
		op := &restOp{}
		if err := json.Unmarshal(raw, op); err != nil {
			return "bad-op"
		}
		t, err := restTranscoder(op.Rule)
		if err != nil {
			return "config-rejected"
		}
		msg, err := msgFromLeaves(op.Leaves)
		if err != nil {
			return "bad-op"
		}
		orig := renderLeaves(msg)
		epath, query, method, hasBody, body, err := t.VerifRESTEncode(restMethodPath, msg)
		if err != nil {
			return "encerr " + restErrClass(err)
		}
		bodyOut := "none"
		if hasBody {
			bodyOut = bodyLeaves(op.Rule, body)
		}
		out := fmt.Sprintf("enc %s %s %s body=%s", method, hs(epath), hs(query), bodyOut)
		mp, back, err := t.VerifRESTDecode(method, epath, query, body)
		if err != nil {
			return out + " decerr " + restErrClass(err)
		}
		same := "0"
		if renderLeaves(back) == orig && mp == restMethodPath {
			same = "1"
		}
		return out + " dec " + renderLeaves(back) + " same=" + same
	}
	executors["rest_in"] = func(a []string) string {
		raw, err := hex.DecodeString(a[0])
		if err != nil {
			return "bad-op"
		}
		op := &restOp{}
		if err := json.Unmarshal(raw, op); err != nil {
			return "bad-op"
		}
		t, err := restTranscoder(op.Rule)
		if err != nil {
			return "config-rejected"
		}
		var body []byte
		if len(op.Leaves) > 0 && op.Rule.Body == "*" {
			m, err := msgFromLeaves(op.Leaves)
			if err != nil {
				return "bad-op"
			}
			body, _ = protojson.Marshal(m)
		}
		_, back, err := t.VerifRESTDecode(op.Method, string(unhx(op.EPath)), string(unhx(op.Query)), body)
		if err != nil {
			return "err " + restErrClass(err)
		}
		return "dec " + renderLeaves(back)
	}
	// rest_http: the same request as rest_in, but through Transcoder.ServeHTTP with the request parsed
	// the way net/http parses a request target (URL.Path decoded, URL.RawPath escaped)
	executors["rest_http"] = func(a []string) string {
		raw, err := hex.DecodeString(a[0])
		if err != nil {
			return "bad-op"
		}
		op := &restOp{}
		if err := json.Unmarshal(raw, op); err != nil {
			return "bad-op"
		}
		t, backend, err := restHTTPTranscoder(op.Rule)
		if err != nil {
			return "config-rejected"
		}
		target := string(unhx(op.EPath))
		if q := string(unhx(op.Query)); q != "" {
			target += "?" + q
		}
		u, err := url.ParseRequestURI(target)
		if err != nil {
			return "bad-url"
		}
		var body []byte
		if len(op.Leaves) > 0 && op.Rule.Body == "*" {
			m, err := msgFromLeaves(op.Leaves)
			if err != nil {
				return "bad-op"
			}
			body, _ = protojson.Marshal(m)
		} else if op.Rule.Body == "*" {
			body = []byte("{}") // (an empty body is not JSON; how that error is classified is C04's business)
		}
		req := httptest.NewRequest(op.Method, "http://example.test/", bytes.NewReader(body))
		req.URL, req.RequestURI = u, target
		req.Header.Set("Content-Type", "application/json")
		backend.got = nil
		rec := httptest.NewRecorder()
		t.ServeHTTP(rec, req)
		switch rec.Code {
		case 200:
			if backend.got == nil {
				return "err no-dispatch"
			}
			m := dynamicpb.NewMessage(reqDescriptor())
			if err := proto.Unmarshal(backend.got, m); err != nil {
				return "err backend-unparsable"
			}
			return "dec " + renderLeaves(m)
		case 400:
			return "err invalid_argument"
		case 404, 405:
			return "err notfound"
		default:
			if os.Getenv("VERIF_DEBUG") != "" {
				fmt.Fprintf(os.Stderr, "status %d body %s\n", rec.Code, rec.Body.String())
			}
			return "err other"
		}
	}
	// rest_out: the message of rest_rt sent by a Connect (JSON) client through Transcoder.ServeHTTP
	// to a service whose only target protocol is REST: what request reaches the backend, and how often
	executors["rest_out"] = func(a []string) string {
		raw, err := hex.DecodeString(a[0])
		if err != nil {
			return "bad-op"
		}
		op := &restOp{}
		if err := json.Unmarshal(raw, op); err != nil {
			return "bad-op"
		}
		t, backend, err := restTargetTranscoder(op.Rule)
		if err != nil {
			return "config-rejected"
		}
		msg, err := msgFromLeaves(op.Leaves)
		if err != nil {
			return "bad-op"
		}
		body, _ := proto.Marshal(msg)
		req := httptest.NewRequest("POST", "http://example.test"+restMethodPath, bytes.NewReader(body))
		req.Header.Set("Content-Type", "application/proto") // Connect unary, proto codec
		req.Header.Set("Connect-Protocol-Version", "1")
		backend.calls, backend.line, backend.got = 0, "", nil
		rec := httptest.NewRecorder()
		t.ServeHTTP(rec, req)
		if backend.calls == 0 {
			if os.Getenv("VERIF_DEBUG") != "" {
				fmt.Fprintf(os.Stderr, "status %d body %s\n", rec.Code, rec.Body.String())
			}
			if rec.Code == 200 {
				return "disp=0 status=200"
			}
			return "disp=0 err"
		}
		bodyOut := "none"
		if op.Rule.Body != "" {
			bodyOut = bodyLeaves(op.Rule, backend.got)
		}
		out := fmt.Sprintf("disp=%d enc %s body=%s", backend.calls, backend.line, bodyOut)
		if rec.Code != 200 {
			out += fmt.Sprintf(" status=%d", rec.Code)
		}
		return out
	}
	// rest_out_cut <op>: a gRPC client of a REST-only service whose only message is cut: nothing may
	// be dispatched (the REST request line is made from the complete message)
	executors["rest_out_cut"] = func(a []string) string {
		raw, err := hex.DecodeString(a[0])
		if err != nil {
			return "bad-op"
		}
		op := &restOp{}
		if err := json.Unmarshal(raw, op); err != nil {
			return "bad-op"
		}
		t, backend, err := restTargetTranscoder(op.Rule)
		if err != nil {
			return "config-rejected"
		}
		msg, err := msgFromLeaves(op.Leaves)
		if err != nil {
			return "bad-op"
		}
		payload, _ := proto.Marshal(msg)
		if len(payload) < 2 {
			payload = append(payload, 0x52, 0x00) // (field 10 `data`, empty: any two bytes will do, they never arrive whole)
		}
		frame := make([]byte, 5, 5+len(payload))
		binary.BigEndian.PutUint32(frame[1:], uint32(len(payload)))
		switch op.Cut {
		case "env":
		case "part":
			frame = append(frame, payload[:len(payload)-1]...)
		default:
			frame = frame[:3]
		}
		req := httptest.NewRequest("POST", "http://example.test"+restMethodPath, bytes.NewReader(frame))
		req.ProtoMajor, req.ProtoMinor, req.Proto = 2, 0, "HTTP/2.0"
		req.Header.Set("Content-Type", "application/grpc+proto")
		req.Header.Set("Te", "trailers")
		backend.calls, backend.line, backend.got = 0, "", nil
		rec := httptest.NewRecorder()
		t.ServeHTTP(rec, req)
		if backend.calls == 0 {
			if rec.Header().Get("Grpc-Status") == "0" || rec.Result().Trailer.Get("Grpc-Status") == "0" {
				return "disp=0 status=ok"
			}
			return "disp=0 err"
		}
		return fmt.Sprintf("disp=%d enc %s", backend.calls, backend.line)
	}
	streams["rest"] = streamRest
}

// restTargetBackend stands for a REST server: it records the request line and body and answers {}.
type restTargetBackend struct {
	calls int
	line  string
	got   []byte
}

func (b *restTargetBackend) ServeHTTP(w http.ResponseWriter, r *http.Request) {
	b.calls++
	b.line = fmt.Sprintf("%s %s %s", r.Method, hs(r.URL.EscapedPath()), hs(r.URL.RawQuery))
	b.got, _ = io.ReadAll(r.Body)
	w.Header().Set("Content-Type", "application/json")
	w.WriteHeader(200)
	_, _ = w.Write([]byte("{}"))
}

var restTargetCache = map[string]*struct {
	t *vanguard.Transcoder
	b *restTargetBackend
}{}

func restTargetTranscoder(rule cfgBinding) (*vanguard.Transcoder, *restTargetBackend, error) {
	key := fmt.Sprint(rule)
	if e, ok := restTargetCache[key]; ok {
		return e.t, e.b, nil
	}
	b := &restTargetBackend{}
	hr := rule.rule()
	hr.Selector = "cfg.v1.Lib.Get"
	t, err := vanguard.NewTranscoder([]*vanguard.Service{vanguard.NewServiceWithSchema(cfgSchema["cfg.v1.Lib"], b,
		vanguard.WithTargetProtocols(vanguard.ProtocolREST), vanguard.WithTargetCodecs("json"), vanguard.WithNoTargetCompression())},
		vanguard.WithRules(hr))
	if err != nil {
		return nil, nil, err
	}
	restTargetCache[key] = &struct {
		t *vanguard.Transcoder
		b *restTargetBackend
	}{t, b}
	return t, b, nil
}

type restBackend struct{ got []byte }

func (b *restBackend) ServeHTTP(w http.ResponseWriter, r *http.Request) {
	b.got, _ = io.ReadAll(r.Body)
	if b.got == nil {
		b.got = []byte{}
	}
	w.Header().Set("Content-Type", "application/proto")
	w.WriteHeader(200)
}

var restHTTPCache = map[string]*struct {
	t *vanguard.Transcoder
	b *restBackend
}{}

func restHTTPTranscoder(rule cfgBinding) (*vanguard.Transcoder, *restBackend, error) {
	key := fmt.Sprint(rule)
	if e, ok := restHTTPCache[key]; ok {
		return e.t, e.b, nil
	}
	b := &restBackend{}
	hr := rule.rule()
	hr.Selector = "cfg.v1.Lib.Get"
	t, err := vanguard.NewTranscoder([]*vanguard.Service{vanguard.NewServiceWithSchema(cfgSchema["cfg.v1.Lib"], b,
		vanguard.WithTargetProtocols(vanguard.ProtocolConnect), vanguard.WithTargetCodecs("proto"), vanguard.WithNoTargetCompression())},
		vanguard.WithRules(hr))
	if err != nil {
		return nil, nil, err
	}
	restHTTPCache[key] = &struct {
		t *vanguard.Transcoder
		b *restBackend
	}{t, b}
	return t, b, nil
}

// ---- generator ----

var restStrings = []string{"b1", "shelves/s1", "shelves/a b", "x/1", "a/q/b/r/s", "x/k", "a b", "a/b", "a%2Fb", "a%2fb", "shelves/%2f", "100%", "100%41", "50%25", "ü", "x:y", "a?b=c&d", "+plus+", "..", ".", "~t_-.", "a;b,c", "quo\"te", "{brace}", "", "shelves/s1", "shelves/s 1/x", "#frag", "[x]", "%", "%zz", "q=1", "Shelves/s1", "SHELVES/s1", "X/1", "A/q/b/r", "a/q/B/r"}

var restTemplates = []string{"/v1/books", "/v1/books/{name}", "/v1/{name=shelves/*}/books", "/v1/books/{inner.id}", "/v1/{name=**}", "/v1/books:archive",
	"/v1/items/{n}", "/v1/deep/{inner.deep.leaf}/x", "/v2/{name}/{inner.id}", "/v1/*/list", "/v1/books/{name}:verb", "/v1/shelves/{name=*}",
	"/v1/{name}/{name}", "/v1/{book_id}/{flag}/{big}", "/v1/{name=a/*/b/**}", "/v1/{inner.id=x/*}/{name=**}:v", "/v1/{inner}", "/v1/c/{cnt}"}

func streamRest(e *Emitter, rng *rand.Rand, tier string) {
	n := 1500
	if tier == "thorough" {
		n = 40000
	}
	str := func() string { return pick(rng, restStrings) }
	for i := 0; i < n; i++ {
		op := &restOp{}
		op.Schema.Messages = cfgMessages
		op.Rule = cfgBinding{Kind: pick(rng, []string{"get", "post", "put", "patch", "delete"}), Path: pick(rng, restTemplates),
			Body: pick(rng, []string{"", "", "*", "inner", "tags", "name", "n"})}
		// a value for `name` made to fit (or to just miss) the pattern the rule gives it: right literals,
		// one segment too many or too few, a literal in another letter case
		fitName := func() (string, bool) {
			i := strings.Index(op.Rule.Path, "{name=")
			if i < 0 {
				return "", false
			}
			pat := op.Rule.Path[i+len("{name="):]
			pat = pat[:strings.Index(pat, "}")]
			var parts []string
			for _, p := range strings.Split(pat, "/") {
				switch p {
				case "*":
					parts = append(parts, pick(rng, []string{"s1", "a b", "x", "B"}))
				case "**":
					for k := rng.IntN(3); k > 0; k-- {
						parts = append(parts, pick(rng, []string{"p", "q r", "z", "p", "a%2fb", "%2F"}))
					}
				default:
					if rng.IntN(6) == 0 {
						p = strings.ToUpper(p[:1]) + p[1:]
					}
					parts = append(parts, p)
				}
			}
			switch rng.IntN(6) {
			case 0:
				// one segment too many: the literal that follows the variable in the template, or anything
				extra := "extra"
				rest := op.Rule.Path[i:]
				rest = rest[strings.Index(rest, "}")+1:]
				if strings.HasPrefix(rest, "/") && rng.IntN(3) != 0 {
					extra = strings.SplitN(strings.SplitN(rest[1:], "/", 2)[0], ":", 2)[0]
				}
				if extra == "" || strings.ContainsAny(extra, "{*") {
					extra = "extra"
				}
				parts = append(parts, extra)
			case 1:
				if len(parts) > 1 {
					parts = parts[:len(parts)-1]
				}
			}
			return strings.Join(parts, "/"), true
		}
		leaf := func() [2]string {
			switch rng.IntN(12) {
			case 0, 1, 2:
				if v, ok := fitName(); ok && rng.IntN(2) == 0 {
					return [2]string{"name", hs(v)}
				}
				return [2]string{"name", hs(str())}
			case 3:
				return [2]string{"n", hs(pick(rng, []string{"0", "7", "-1", "2147483647", "-2147483648"}))}
			case 4, 5:
				return [2]string{"tags", hs(str())}
			case 6:
				return [2]string{"inner.id", hs(str())}
			case 7:
				return [2]string{"inner.nums", hs(pick(rng, []string{"0", "5", "-9"}))}
			case 8:
				return [2]string{"inner.deep.leaf", hs(str())}
			case 9:
				return [2]string{pick(rng, []string{"book_id", "book_id", "flag", "big", "cnt"}), ""}
			case 10:
				// bytes: values whose base64 form has `-`, `_`, both, neither; every length mod 3
				return [2]string{"data", hs(pick(rng, []string{"???", ">>>", "?>?>", "abc", "ab", "a", "\xff\xfe\xfd", "~~~~", "hello world"}))}
			default:
				return [2]string{"inners", hs("el")}
			}
		}
		fix := func(l [2]string) [2]string {
			switch l[0] {
			case "book_id":
				l[1] = hs(str())
			case "flag":
				l[1] = hs(pick(rng, []string{"true", "false"}))
			case "big":
				l[1] = hs(pick(rng, []string{"9223372036854775807", "-5", "0"}))
			case "cnt":
				l[1] = hs(pick(rng, []string{"4294967295", "7", "0", "2147483648"}))
			}
			return l
		}
		if rng.IntN(3) != 0 {
			// message -> REST -> message
			seen := map[string]bool{}
			for k := rng.IntN(6); k > 0; k-- {
				l := fix(leaf())
				repeated := l[0] == "tags" || l[0] == "inner.nums" || l[0] == "inners"
				if seen[l[0]] && !repeated {
					continue
				}
				if l[0] == "inners" && rng.IntN(3) != 0 {
					continue // keep messages that cannot be URL-encoded rare
				}
				seen[l[0]] = true
				op.Leaves = append(op.Leaves, l)
			}
			if strings.Contains(op.Rule.Path, "{name") && !seen["name"] && rng.IntN(4) != 0 {
				// a rule that binds `name` in the path is mostly exercised with a name
				v := str()
				if f, ok := fitName(); ok && rng.IntN(3) != 0 {
					v = f
				}
				op.Leaves = append(op.Leaves, [2]string{"name", hs(v)})
			}
			sort.SliceStable(op.Leaves, func(i, j int) bool { return op.Leaves[i][0] < op.Leaves[j][0] })
			raw, _ := json.Marshal(op)
			e.Class("rest:roundtrip body=" + op.Rule.Body)
			e.Emit("rest_rt " + hex.EncodeToString(raw))
			e.Emit("rest_out " + hex.EncodeToString(raw))
			if rng.IntN(4) == 0 {
				op.Cut = pick(rng, []string{"env", "env", "part", "short"})
				raw2, _ := json.Marshal(op)
				e.Class("rest:cut-message-to-rest-backend " + op.Cut)
				e.Emit("rest_out_cut " + hex.EncodeToString(raw2))
			}
			continue
		}
		// an arbitrary REST request against the rule
		op.Method = strings.ToUpper(op.Rule.Kind)
		if rng.IntN(10) == 0 {
			op.Method = "OPTIONS"
		}
		seg := func() string {
			return pick(rng, []string{"b1", "a%20b", "a%2Fb", "100%25", "%C3%BC", "x:y", "a+b", "..", "shelves", "s1", "x", "a%zz", "%", "12", "-3", "true", "", "a;b", "4294967303", "4294967295"})
		}
		path := "/v1"
		for k := 1 + rng.IntN(4); k > 0; k-- {
			path += "/" + seg()
		}
		if rng.IntN(6) == 0 {
			path += ":" + pick(rng, []string{"verb", "archive", "v", ""})
		}
		if rng.IntN(4) != 0 {
			// a path that fits the template: literals kept, wildcards filled
			path = ""
			for _, p := range strings.Split(strings.TrimPrefix(strings.Split(op.Rule.Path, ":")[0], "/"), "/") {
				switch {
				case strings.HasPrefix(p, "{") || p == "*" || strings.Contains(p, "*"):
					path += "/" + seg()
				default:
					path += "/" + strings.Trim(p, "{}")
				}
			}
			if i := strings.LastIndex(op.Rule.Path, ":"); i >= 0 && !strings.Contains(op.Rule.Path[i:], "}") {
				path += op.Rule.Path[i:]
			}
		}
		op.EPath = hs(path)
		q := []string{}
		for k := rng.IntN(4); k > 0; k-- {
			key := pick(rng, []string{"name", "n", "tags", "inner.id", "inner.nums", "inner.deep.leaf", "book_id", "bookId", "flag", "big", "inner", "inners", "nosuch", "inner.nosuch", "name.x", "tags.x", "Inner.id", "", "name.", "inner.", "inner..id", ".name", "inner.id.", "tags.", ".", "data", "data", "cnt", "cnt"})
			val := pick(rng, []string{"v", "a%20b", "a+b", "%2F", "12", "-3", "007", "1e3", "2147483648", "null", "true", "TRUE", "1", "", "%zz", "aGVsbG8", "aGVsbG8=", "1.0", " 5", "\"q\"", "Pz8_", "Pz8%2F", "Pj4-", "Pj4%2B", "YQ==", "YQ", "YQ=", "YWI=", "YWJj", "Pz8_Pz8%2F", "YQ==YQ==", "4294967295", "4294967296", "4294967303", "18446744073709551616", "-0"})
			q = append(q, key+"="+val)
		}
		op.Query = hs(strings.Join(q, "&"))
		parsed, _ := url.ParseQuery(strings.Join(q, "&"))
		var keys []string
		for k := range parsed {
			keys = append(keys, k)
		}
		sort.Strings(keys)
		for _, k := range keys {
			row := []string{hs(k)}
			for _, v := range parsed[k] {
				row = append(row, hs(v))
			}
			op.QParsed = append(op.QParsed, row)
		}
		if op.Rule.Body == "*" && rng.IntN(2) == 0 {
			op.Leaves = [][2]string{fix(leaf())}
			if op.Leaves[0][0] == "inners" {
				op.Leaves = nil
			}
		}
		raw, _ := json.Marshal(op)
		e.Class("rest:request")
		e.Emit("rest_in " + hex.EncodeToString(raw))
		if op.Method != "OPTIONS" && !strings.Contains(path, "%zz") && !strings.HasSuffix(path, "%") && !strings.Contains(path, "%/") && !strings.Contains(path, "%:") {
			// (targets net/http itself would reject are not requests the transcoder ever sees)
			e.Emit("rest_http " + hex.EncodeToString(raw))
		}
	}
	_ = url.QueryEscape
}
